#!/usr/bin/env python3
"""Runs every seeded change (seeded/*/patch.diff) and every own mutant (mutants/*.diff) against the checks named
for it, confirms tests/demo behaviour, and writes seeded/<id>/meta.json plus seeded/MATRIX.md.

usage: tools/seed_matrix.py [name-prefix ...]
"""
import json
import os
import re
import shutil
import subprocess
import sys
import tempfile

HERE = os.path.dirname(os.path.dirname(os.path.abspath(__file__)))
# extra checks (besides the seed's own property) that are run against a seed
ALSO = {
    "C01-a": ["C05", "C16"], "C01-b": ["C03"], "C03-a": ["C01"], "C03-b": ["C13"], "C04-b": ["C07", "C01"], "C05-b": ["C01"],
    "C06-a": ["C07"], "C07-a": ["C06"], "C10-b": ["C13"], "C14-b": ["C07", "C01"], "C16-a": ["C05"], "C20-a": ["C08"], "C08-a": ["C20"], "C12-p": ["C17"], "C02-r": ["C03", "C17"], "C02-t": ["C06"], "C07-t": ["C06"], "C08-t": ["C15"], "C09-s": ["C10"], "C03-t": ["C17"], "C05-t": ["C14"],
}
MUTANT_CHECKS = {
    "c02-remove-write-before-check": ["C02"], "c04-remove-c-order": ["C04"],
    "revert-fix-condense-log-zero": ["C11"], "revert-fix-constructor-validation": ["C20"], "revert-fix-dilutionplan-budget": ["C14"], "revert-fix-dilutionplan-fractional-vmax": ["C14"], "revert-fix-iterator-tip": ["C10"], "revert-fix-labwares-format": ["C09"], "revert-fix-literal-label": ["C11"], "revert-fix-integer-dtype-volume": ["C04", "C06"],
    "revert-fix-distribute-order": ["C03"], "revert-fix-distribute-same-labware-log": ["C11"], "revert-fix-evo-selection": ["C10", "C13"],
    "revert-fix-gwl-suffix": ["C17"], "revert-fix-lvh-count": ["C11"], "revert-fix-nan-composition": ["C05"],
    "revert-fix-negative-transfer-volume": ["C07"], "revert-fix-partition-volume": ["C06"], "revert-fix-randomize-shapes": ["C15"],
    "revert-fix-rdist-validation": ["C09", "C03"], "revert-fix-tube-id": ["C09"], "revert-fix-single-row-default-names": ["C05", "C01"], "revert-fix-transfer-unknown-wells": ["C08"],
}


def sh(cmd, cwd=None, env=None, timeout=3600):
    p = subprocess.run(cmd, shell=True, cwd=cwd, env=env, capture_output=True, text=True, timeout=timeout)
    return p.returncode, p.stdout + p.stderr


def evaluate(name, patch, demo, checks):
    S = tempfile.mkdtemp(prefix="rtmc-seed.", dir="/var/tmp")
    res = {"name": name, "checks": {}}
    try:
        sh(f"rsync -a --exclude .git --exclude __pycache__ /repo/ {S}/")
        env = dict(os.environ, PYTHONPATH=S)
        if demo:
            rc, out = sh(f"/venv/bin/python {demo}", cwd=S, env=env, timeout=900)
            res["demo_without_change"] = rc
        rc, out = sh(f"patch -p1 -s < {patch}", cwd=S)
        if rc != 0:
            res["patch"] = "FAILED " + out[-300:]
            return res
        res["patch"] = "applied"
        rc, out = sh("/venv/bin/python -m pytest -q -p no:cacheprovider 2>&1 | tail -1", cwd=S, env=env)
        res["tests_with_change"] = out.strip()
        if demo:
            rc, out = sh(f"/venv/bin/python {demo}", cwd=S, env=env, timeout=900)
            res["demo_with_change"] = rc
            res["demo_message"] = out.strip().splitlines()[-1][:300] if out.strip() else ""
        for c in checks:
            env2 = dict(os.environ, VERIF_REPO=S, VERIF_NOEVIDENCE="1", VERIF_JOBS=os.environ.get("MATRIX_JOBS", "4"))
            rc, out = sh(f"./check {c} quick", cwd=HERE, env=env2)
            clauses = sorted(set(re.findall(r"clause=(\S+)", out)))
            res["checks"][c] = {"exit": rc, "violation_lines": out.count("VIOLATION property="), "clauses": clauses[:8], "harness_error": "HARNESS-ERROR" in out}
    finally:
        shutil.rmtree(S, ignore_errors=True)
    return res


def main(prefixes):
    from concurrent.futures import ThreadPoolExecutor

    rows = []
    names = sorted(os.listdir(os.path.join(HERE, "seeded")))
    todo = []
    for n in names:
        d = os.path.join(HERE, "seeded", n)
        if not os.path.isdir(d) or (prefixes and not any(n.startswith(p) for p in prefixes)):
            continue
        pid = n.split("-")[0]
        todo.append((n, d, pid, [pid] + ALSO.get(n, [])))
    pool = ThreadPoolExecutor(max_workers=int(os.environ.get("MATRIX_PAR", "4")))
    futs = [(n, d, pid, checks, pool.submit(evaluate, n, os.path.join(d, "patch.diff"), os.path.join(d, "demo.py"), checks)) for n, d, pid, checks in todo]
    for n, d, pid, checks, fut in futs:
        r = fut.result()
        notes = open(os.path.join(d, "notes.md")).read() if os.path.exists(os.path.join(d, "notes.md")) else ""
        meta = {
            "id": n,
            "breaks_property": pid,
            "origin": "independent sub-agent given only the property text and a scratch worktree",
            "needs_to_manifest": notes.strip()[:1500],
            "confirmed": {
                "tests_with_change": r.get("tests_with_change"),
                "demo_exit_with_change": r.get("demo_with_change"),
                "demo_exit_without_change": r.get("demo_without_change"),
                "demo_message": r.get("demo_message"),
            },
            "what_was_run": f"tools/seed_matrix.py {n}: scratch copy of /repo under /var/tmp, patch -p1, pytest, demo.py with and without the change, then `VERIF_REPO=<copy> ./check <id> quick` for {checks}",
            "detected_by": {c: v for c, v in r["checks"].items()},
        }
        with open(os.path.join(d, "meta.json"), "w") as f:
            json.dump(meta, f, indent=1)
        rows.append((n, r))
        print(n, r.get("tests_with_change"), "demo", r.get("demo_without_change"), "->", r.get("demo_with_change"), {c: (v["exit"], v["clauses"][:2]) for c, v in r["checks"].items()}, flush=True)
    mfuts = []
    for n in sorted(os.listdir(os.path.join(HERE, "mutants"))):
        if not n.endswith(".diff") or (prefixes and not any(n.startswith(p) for p in prefixes)):
            continue
        key = n[:-5]
        mfuts.append((key, pool.submit(evaluate, key, os.path.join(HERE, "mutants", n), None, MUTANT_CHECKS.get(key, []))))
    for key, fut in mfuts:
        r = fut.result()
        rows.append((key, r))
        print(key, r.get("patch"), r.get("tests_with_change"), {c: (v["exit"], v["clauses"][:2]) for c, v in r["checks"].items()}, flush=True)
    if not prefixes:
        with open(os.path.join(HERE, "seeded", "MATRIX.md"), "w") as f:
            f.write("| change | repository tests | demo (without -> with) | detected by (exit code, first clauses) |\n|---|---|---|---|\n")
            for n, r in rows:
                det = "; ".join(f"{c}: exit {v['exit']} {', '.join(v['clauses'][:3])}" for c, v in r["checks"].items())
                f.write(f"| {n} | {r.get('tests_with_change', r.get('patch'))} | {r.get('demo_without_change', '-')} -> {r.get('demo_with_change', '-')} | {det} |\n")


if __name__ == "__main__":
    main(sys.argv[1:])
