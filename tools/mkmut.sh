#!/bin/sh
# usage: tools/mkmut.sh <name> <file-relative-to-repo> <python-expr-old> <python-expr-new>   (strings; exactly one occurrence unless COUNT given)
# writes mutants/<name>.diff
set -e
NAME=$1; FILE=$2; OLD=$3; NEW=$4
/venv/bin/python - "$FILE" "$OLD" "$NEW" "${COUNT:-1}" "${NTH:-0}" <<'PY'
import sys
f, old, new, count, nth = sys.argv[1], sys.argv[2], sys.argv[3], int(sys.argv[4]), int(sys.argv[5])
s = open('/repo/' + f).read()
old = old.encode().decode('unicode_escape'); new = new.encode().decode('unicode_escape')
n = s.count(old)
assert n >= 1, f"pattern not found ({n})"
if nth:
    parts = s.split(old)
    s2 = old.join(parts[:nth]) + new + old.join(parts[nth:])
else:
    assert n == count, f"pattern occurs {n} times, expected {count}"
    s2 = s.replace(old, new)
open('/tmp/_mut_new', 'w').write(s2)
PY
(cd /repo && diff -u "$FILE" /tmp/_mut_new | sed "s#^--- $FILE.*#--- a/$FILE#; s#^+++ /tmp/_mut_new.*#+++ b/$FILE#") > /verif/mutants/$NAME.diff || true
rm -f /tmp/_mut_new
wc -l /verif/mutants/$NAME.diff
