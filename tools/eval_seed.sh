#!/bin/sh
# usage: tools/eval_seed.sh <dir with patch.diff and demo.py> <Cxx> [<Cxx> ...]
# Confirms a seeded change in a scratch copy of /repo's working tree: patch applies, the repository's tests
# pass, the demo fails with the change and passes without it; then runs the named quick checks against it.
set -u
D=$(realpath "$1"); shift
S=$(mktemp -d /var/tmp/rtmc-seed.XXXXXX)
trap 'rm -rf "$S"' EXIT
rsync -a --exclude .git --exclude '__pycache__' /repo/ "$S/"
echo "== demo on unchanged tree"
(cd "$S" && PYTHONPATH="$S" timeout 600 /venv/bin/python "$D/demo.py" >/tmp/_demo0.out 2>&1; echo "exit=$?"; tail -2 /tmp/_demo0.out)
(cd "$S" && git init -q . 2>/dev/null; git apply --whitespace=nowarn "$D/patch.diff" 2>/dev/null || patch -p1 -s < "$D/patch.diff") || { echo "PATCH-FAILED"; exit 3; }
echo "== tests with change"
(cd "$S" && PYTHONPATH="$S" /venv/bin/python -m pytest -q -p no:cacheprovider 2>&1 | tail -1)
echo "== demo with change"
(cd "$S" && PYTHONPATH="$S" timeout 600 /venv/bin/python "$D/demo.py" >/tmp/_demo1.out 2>&1; echo "exit=$?"; tail -2 /tmp/_demo1.out)
cd /verif
for id in "$@"; do
  echo "== check $id"
  VERIF_REPO="$S" VERIF_NOEVIDENCE=1 ./check "$id" quick 2>&1 | grep -E "VIOLATION|HARNESS|^C[0-9]+ |clause" | head -${VERIF_HEAD:-5}
done
