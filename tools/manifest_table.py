"""Source of truth for MANIFEST.json (tools/gen_manifest.py)."""
ALL = [f"C{i:02d}" for i in range(1, 21)]

_A = "explicit-state model checking of the real code: level-synchronous BFS over all operation sequences up to a depth bound with canonical-state deduplication; "
_B = "exhaustive enumeration of a bounded input lattice on the real code (depth-1 state space, complete branching); "
_NOTE = "Trusted base: the reference models in rtmc/ref and the harness oracle, written from the property statement and the Tecan record format, never calling robotools to compute an expected value. Exhaustive only within the bounds printed in evidence.coverage.bounds / rule; nothing is claimed beyond them. The alphabets grew through eleven rounds of independently seeded changes (caller-owned and shared arrays, numpy dtypes and ndarray subclasses, one-shot iterators, copies and pickles, user subclasses, attributes re-assigned on live objects, worklists that outlive labware, text values with format characters, ...); what each round added is listed in DESIGN.md section 9."


def A(tech, text, ref):
    return {"technique": _A + tech, "text": text, "note": _NOTE, "design_ref": ref}


def B(tech, text, ref):
    return {"technique": _B + tech, "text": text, "note": _NOTE, "design_ref": ref}


CHECKS = {
    "C01": A(
        "every emitted record is parsed, decoded by the device's numbering rule and executed by an independent GWL interpreter; volumes, compositions and addressing compared with the Labware objects",
        "Every sequence of <= d core operations followed by any one operation of a ~300-event full alphabet (all argument shapes, wash schemes, partition modes, 63 destination subsets), 3 labware sets x 2 devices plus max_volume and non-dyadic rounding variants. The property quantifies over programs on deterministic code, so bounded exhaustive exploration of the real transition function decides it within the bound.",
        "DESIGN.md 4/C01",
    ),
    "C02": A(
        "state-relative volumes (exactly to the limit, one ulp beyond, 1e308, inf) at every call site; invariant + must-raise oracle in exact and float arithmetic + offending-well-unchanged",
        "All histories <= d (rejected calls included, <= 2 per execution) over add/remove/aspirate/dispense/transfer/distribute/evo_*, 6 limit configurations on a plate and a trough, every reached state expanded with the full state-relative alphabet.",
        "DESIGN.md 4/C02",
    ),
    "C03": A(
        "fault dimension made explicit: designed failures at every sub-step; the whole record list is replayed record by record with limit and step-size checks; raising histories re-run inside a with-block and the file compared",
        "All sequences of <= d successful core operations followed by one (possibly raising) operation of the full alphabet, 2 labware sets x 2 devices x auto_split on/off; a vacuity check requires every designed failure point to be reached.",
        "DESIGN.md 4/C03",
    ),
    "C04": A(
        "exact Fraction ledger per real well; frame condition bit-exact; all argument shapes",
        "All histories <= d of add/remove/aspirate/dispense over 4 labware x 11-13 well-argument shapes x scalar/list/2-D volume arguments with pairwise distinct entries, wide and tight limits.",
        "DESIGN.md 4/C04",
    ),
    "C05": A(
        "exact volumetric mixing ledger per component; finiteness, range, normalisation, removal invariance, conservation",
        "All histories <= d (thorough: 4, serial dilutions) of transfer/distribute/dispense-with-composition/aspirate/remove over three naming configurations x two devices, plus the default-naming rule for every plate 1..4 x 1..4 and troughs 1..3 columns.",
        "DESIGN.md 4/C05",
    ),
    "C06": B(
        "dense (volume, max_volume) grid incl. +-1 ulp around every multiple, end-to-end through both transfer implementations, reagent-distribution grid; arithmetic reference in Fractions",
        "Complete grid of ~40 000 (thorough ~150 000) (v, max_volume) pairs for the helper, 700 end-to-end transfers per tier on both devices with auto_split on/off, 450 reagent distributions.",
        "DESIGN.md 4/C06",
    ),
    "C11": A(
        "the complete history is the state (no merging); prefix preservation, entry-count delta, snapshot non-aliasing, label / LVH count from the emitted records, report",
        "All histories <= d over add/remove/aspirate/dispense/transfer (zero, partly zero, split, same labware, same well)/distribute with labels None/''/'L' on alternating Evo and Fluent worklists.",
        "DESIGN.md 4/C11",
    ),
    "C16": A(
        "synchronous product of an Evo world and a Fluent world; pairwise equality of state, history, outcome class and records modulo trough position fields which must decode to the same well",
        "All sequences <= d (failing operations included) over C01's alphabet + C03's designed failures + comment/wash/flush/commit, 2 labware sets x auto_split on/off, run in lock-step on both devices and on a BaseWorklist.",
        "DESIGN.md 4/C16",
    ),
    "C17": A(
        "state = (record list, directory contents); file bytes compared with CRLF-joined Latin-1 records after every save / with-exit",
        "All histories <= d over {emit a record of each type, save(str/Path) under 6 names, __enter__, __exit__ with/without exception, aborted with-block} x configured path yes/no x pre-existing file absent/shorter/longer x 2 devices.",
        "DESIGN.md 4/C17",
    ),
}

CHECKS.update(
    {
        "C07": B(
            "all ordered triple lists up to a length bound (every permutation is a member) x partition modes x devices, plus deviation-bounded option combinations; independent stream parser (A-D-tip-action discipline, aggregated flows, break discipline)",
            "All ordered lists of <= 2 (thorough <= 3) triples over 64 colliding (source, destination, volume) triples x 3 partition modes x 2 devices x plate/trough source; 48 lists x all combinations of <= 2 (3) of 14 call options; 2-D/broadcast shapes; all non-broadcastable length combinations and negative entries.",
            "DESIGN.md 4/C07",
        ),
        "C08": B(
            "every well of every geometry against closed-form numbering and its inverse; malformed IDs through every operation",
            "Every well of every plate 1..26 x (quick: 18 column counts, thorough: 1..120) and every trough 1..26 virtual rows x 1..24 columns on both devices and all attributes/helpers; 13 malformed IDs x 9 operations x 2 labware x 2 devices.",
            "DESIGN.md 4/C08",
        ),
        "C09": B(
            "per emitter the product of per-field value classes with a bounded number of non-default fields (deviation bound), decoded by an independent grammar; plus a small explicit-state machine for the DiTi-switch protocol (all record sequences <= 3)",
            "All argument tuples with <= 2 (thorough <= 3) non-default fields for aspirate_well / dispense_well (fixed and DiTi mode) and reagent_distribution, all wash/decontaminate/flush/commit/comment classes on 3 worklist types, 15 keyword pass-through cases on 2 devices, 820 record sequences before set_diti.",
            "DESIGN.md 4/C09",
        ),
        "C10": B(
            "all tip sequences up to length 3 over 16 symbols and all 255 subsets in three orders through every entry point; masks decoded from the records",
            "16 single symbols, 4352 sequences, 255 subsets x 3 forms x 3 containers, invalid members at every index, through prepare/aspirate_well/dispense_well/aspirate/dispense/both transfers/evo_aspirate/evo_dispense/evo_wash.",
            "DESIGN.md 4/C10",
        ),
        "C12": B(
            "all subsets of every geometry with <= 14 wells (with injectivity count) and structured families for every other geometry; independent EVOware decoder",
            "117 898 subsets over 41 small geometries exhaustively; empty/full/single/co-single/row/column/7-groups/boundary pairs/checkerboards for the rest (quick: 49 geometries, thorough: all 1 248).",
            "DESIGN.md 4/C12",
        ),
        "C13": B(
            "all well sequences x tip sequences up to length 3 on four geometries; each accepted command decoded by the EVOware rule and executed by the independent interpreter, compared with the tracked per-well change",
            "~590 000 evo_aspirate/evo_dispense calls (tracked and bare), argument classes for volumes/grid/site/arm/liquid class, evo_wash with <= 2 (3) deviating parameters.",
            "DESIGN.md 4/C13",
        ),
        "C14": B(
            "complete parameter grid; every returned plan re-derived from its instructions in exact arithmetic and executed on both devices",
            "4 032 (thorough 8 064) constructor calls; every returned plan executed in 4 device/max_volume/destination/mixing/trough-shape combinations and compared by composition tracking.",
            "DESIGN.md 4/C14",
        ),
        "C15": B(
            "all shapes 1..16 x 1..24 for rotator/randomizer (5 seeds x 3 modes), all A <= 4x6 into B <= 6x8 with every anchor for the shifter; closed-form geometry and inverse laws",
            "384 shapes x 0-D/1-D/2-D inputs; 5 760 randomizers; 1 152 shifter shape pairs x all anchors plus three large pairs.",
            "DESIGN.md 4/C15",
        ),
        "C18": B(
            "all ordered triple lists up to a length bound with forced ties on both sides; multiset preservation, grouping and ordering laws",
            "All lists of length 0..3 over 36 well pairs (thorough: length 4 over 16 pairs) x 2 modes x tied/untied volumes; optimize_partition_by on 4 labware combinations x 8 mode names.",
            "DESIGN.md 4/C18",
        ),
        "C19": B(
            "every (collection form, n) pair for collections of length 1..26 in all list/tuple/1-D/2-D factorisations",
            "8 800 calls: n in 0..3*len+2 for every form, invalid n, empty collections.",
            "DESIGN.md 4/C19",
        ),
        "C20": B(
            "full product of size classes and, on six base geometries, of limit x initial-volume x naming classes; representability predicate written from the statement",
            "6 665 constructor calls of Labware and Trough, valid and invalid; every accepted object checked for grid/ID/index/volume/limit/history/composition consistency.",
            "DESIGN.md 4/C20",
        ),
    }
)

NOT_APPLICABLE = {}
