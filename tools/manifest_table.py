"""Source of truth for MANIFEST.json (tools/gen_manifest.py)."""
ALL = [f"C{i:02d}" for i in range(1, 21)]

CHECKS = {
    "C01": {
        "technique": "explicit-state model checking of the real code: BFS over all operation sequences up to a depth bound, every emitted record replayed by an independent GWL interpreter",
        "text": "Exhaustive within the stated bounds: every sequence of <= d core operations followed by any one operation of a ~300-event full alphabet, for 3 labware sets x 2 devices (+ max_volume and rounding variants). After every successful transition the appended records are parsed, decoded by the device's numbering rule and executed by an independent interpreter; volumes, compositions and record addressing are compared with the Labware objects. This is the right level because the property quantifies over programs and the code is deterministic: bounded exhaustive exploration of the real transition function decides it within the bound.",
        "note": "Trusted: rtmc/ref (parser, interpreter, numbering) written from the record format; bounds: depth, alphabets, geometries listed in evidence.bounds. Nothing is claimed beyond them.",
        "design_ref": "DESIGN.md section 4 / C01",
    },
}

_PENDING = "check not built yet in this revision of /verif (see DESIGN.md section 4); will be claimed once its harness exists"
NOT_APPLICABLE = {p: _PENDING for p in ALL if p not in CHECKS}
