"""Source of truth for MANIFEST.json (tools/gen_manifest.py)."""
ALL = [f"C{i:02d}" for i in range(1, 21)]

_A = "explicit-state model checking of the real code: level-synchronous BFS over all operation sequences up to a depth bound with canonical-state deduplication; "
_B = "exhaustive enumeration of a bounded input lattice on the real code (depth-1 state space, complete branching); "
_NOTE = "Trusted base: the reference models in rtmc/ref and the harness oracle, written from the property statement and the Tecan record format, never calling robotools to compute an expected value. Exhaustive only within the bounds printed in evidence.coverage.bounds / rule; nothing is claimed beyond them."


def A(tech, text, ref):
    return {"technique": _A + tech, "text": text, "note": _NOTE, "design_ref": ref}


def B(tech, text, ref):
    return {"technique": _B + tech, "text": text, "note": _NOTE, "design_ref": ref}


CHECKS = {
    "C01": A(
        "every emitted record is parsed, decoded by the device's numbering rule and executed by an independent GWL interpreter; volumes, compositions and addressing compared with the Labware objects",
        "Every sequence of <= d core operations followed by any one operation of a ~300-event full alphabet (all argument shapes, wash schemes, partition modes, 63 destination subsets), 3 labware sets x 2 devices plus max_volume and non-dyadic rounding variants. The property quantifies over programs on deterministic code, so bounded exhaustive exploration of the real transition function decides it within the bound.",
        "DESIGN.md 4/C01",
    ),
    "C02": A(
        "state-relative volumes (exactly to the limit, one ulp beyond, 1e308, inf) at every call site; invariant + must-raise oracle in exact and float arithmetic + offending-well-unchanged",
        "All histories <= d (rejected calls included, <= 2 per execution) over add/remove/aspirate/dispense/transfer/distribute/evo_*, 6 limit configurations on a plate and a trough, every reached state expanded with the full state-relative alphabet.",
        "DESIGN.md 4/C02",
    ),
    "C03": A(
        "fault dimension made explicit: designed failures at every sub-step; the whole record list is replayed record by record with limit and step-size checks; raising histories re-run inside a with-block and the file compared",
        "All sequences of <= d successful core operations followed by one (possibly raising) operation of the full alphabet, 2 labware sets x 2 devices x auto_split on/off; a vacuity check requires every designed failure point to be reached.",
        "DESIGN.md 4/C03",
    ),
    "C04": A(
        "exact Fraction ledger per real well; frame condition bit-exact; all argument shapes",
        "All histories <= d of add/remove/aspirate/dispense over 4 labware x 11-13 well-argument shapes x scalar/list/2-D volume arguments with pairwise distinct entries, wide and tight limits.",
        "DESIGN.md 4/C04",
    ),
    "C05": A(
        "exact volumetric mixing ledger per component; finiteness, range, normalisation, removal invariance, conservation",
        "All histories <= d (thorough: 4, serial dilutions) of transfer/distribute/dispense-with-composition/aspirate/remove over three naming configurations x two devices, plus the default-naming rule for every plate 1..4 x 1..4 and troughs 1..3 columns.",
        "DESIGN.md 4/C05",
    ),
    "C06": B(
        "dense (volume, max_volume) grid incl. +-1 ulp around every multiple, end-to-end through both transfer implementations, reagent-distribution grid; arithmetic reference in Fractions",
        "Complete grid of ~40 000 (thorough ~150 000) (v, max_volume) pairs for the helper, 700 end-to-end transfers per tier on both devices with auto_split on/off, 450 reagent distributions.",
        "DESIGN.md 4/C06",
    ),
    "C11": A(
        "the complete history is the state (no merging); prefix preservation, entry-count delta, snapshot non-aliasing, label / LVH count from the emitted records, report",
        "All histories <= d over add/remove/aspirate/dispense/transfer (zero, partly zero, split, same labware, same well)/distribute with labels None/''/'L' on alternating Evo and Fluent worklists.",
        "DESIGN.md 4/C11",
    ),
    "C16": A(
        "synchronous product of an Evo world and a Fluent world; pairwise equality of state, history, outcome class and records modulo trough position fields which must decode to the same well",
        "All sequences <= d (failing operations included) over C01's alphabet + C03's designed failures + comment/wash/flush/commit, 2 labware sets x auto_split on/off, run in lock-step on both devices and on a BaseWorklist.",
        "DESIGN.md 4/C16",
    ),
    "C17": A(
        "state = (record list, directory contents); file bytes compared with CRLF-joined Latin-1 records after every save / with-exit",
        "All histories <= d over {emit a record of each type, save(str/Path) under 6 names, __enter__, __exit__ with/without exception, aborted with-block} x configured path yes/no x pre-existing file absent/shorter/longer x 2 devices.",
        "DESIGN.md 4/C17",
    ),
}

_PENDING = "check not built yet in this revision of /verif (DESIGN.md section 4 describes it); it will be claimed once its harness exists"
NOT_APPLICABLE = {p: _PENDING for p in ALL if p not in CHECKS}
