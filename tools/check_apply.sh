#!/bin/sh
# lists the stored patches (seeded/, mutants/, benign/) that no longer apply to /repo's working tree
cd /verif
fails=0
for f in seeded/*/patch.diff mutants/*.diff benign/*/patch.diff; do
  S=$(mktemp -d /var/tmp/rtmc-ap.XXXXXX)
  rsync -a --exclude .git /repo/robotools "$S"/
  (cd "$S" && patch -p1 -s --dry-run < /verif/$f >/dev/null 2>&1) || { echo "FAILS: $f"; fails=$((fails+1)); }
  rm -rf "$S"
done
echo "fails=$fails"
