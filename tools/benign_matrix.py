#!/usr/bin/env python3
"""Applies every behaviour-preserving refactoring in benign/*/patch.diff to a scratch copy of /repo and runs ALL
quick checks against it: every check must stay silent (exit 0).  Writes benign/RESULTS.md."""
import os
import re
import shutil
import subprocess
import sys
import tempfile
from concurrent.futures import ThreadPoolExecutor

HERE = os.path.dirname(os.path.dirname(os.path.abspath(__file__)))
IDS = os.environ.get("BENIGN_CHECKS", "").split() or [f"C{i:02d}" for i in range(1, 21)]
OUT = os.environ.get("BENIGN_OUT", "RESULTS.md")  # partial re-runs write elsewhere


def sh(cmd, cwd=None, env=None, timeout=7200):
    p = subprocess.run(cmd, shell=True, cwd=cwd, env=env, capture_output=True, text=True, timeout=timeout)
    return p.returncode, p.stdout + p.stderr


def evaluate(name):
    d = os.path.join(HERE, "benign", name)
    S = tempfile.mkdtemp(prefix="rtmc-benign.", dir="/var/tmp")
    res = {"name": name, "alarms": {}}
    try:
        sh(f"rsync -a --exclude .git --exclude __pycache__ /repo/ {S}/")
        rc, out = sh(f"patch -p1 -s < {d}/patch.diff", cwd=S)
        if rc != 0:
            res["patch"] = "FAILED"
            return res
        rc, out = sh("/venv/bin/python -m pytest -q -p no:cacheprovider 2>&1 | tail -1", cwd=S, env=dict(os.environ, PYTHONPATH=S))
        res["tests"] = out.strip()
        for c in IDS:
            env = dict(os.environ, VERIF_REPO=S, VERIF_NOEVIDENCE="1", VERIF_JOBS=os.environ.get("MATRIX_JOBS", "5"))
            rc, out = sh(f"./check {c} quick", cwd=HERE, env=env)
            if rc != 0:
                res["alarms"][c] = (rc, sorted(set(re.findall(r"clause=(\S+)", out)))[:5], [l for l in out.splitlines() if "detail=" in l or "HARNESS" in l][:3])
    finally:
        shutil.rmtree(S, ignore_errors=True)
    return res


def main(names):
    names = names or sorted(n for n in os.listdir(os.path.join(HERE, "benign")) if os.path.isdir(os.path.join(HERE, "benign", n)))
    with ThreadPoolExecutor(max_workers=int(os.environ.get("MATRIX_PAR", "3"))) as pool:
        rows = list(pool.map(evaluate, names))
    with open(os.path.join(HERE, "benign", OUT), "w") as f:
        f.write("| refactoring | repository tests | checks that raised an alarm |\n|---|---|---|\n")
        for r in rows:
            f.write(f"| {r['name']} | {r.get('tests', r.get('patch'))} | {r['alarms'] or f'none (all {len(IDS)} quick checks exit 0)'} |\n")
            print(r["name"], r.get("tests", r.get("patch")), r["alarms"], flush=True)


if __name__ == "__main__":
    main(sys.argv[1:])
