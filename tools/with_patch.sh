#!/bin/sh
# usage: tools/with_patch.sh <patch.diff> [--tests] <Cxx> [<Cxx> ...]
# Applies the patch to a scratch copy of /repo (outside /repo and /verif), optionally runs the
# repository's tests there, runs the named quick checks against the copy, removes the copy.
set -u
PATCH=$(realpath "$1"); shift
S=$(mktemp -d /var/tmp/rtmc-scratch.XXXXXX)
trap 'rm -rf "$S"' EXIT
rsync -a --exclude .git --exclude '__pycache__' /repo/ "$S/"
(cd "$S" && patch -p1 -s < "$PATCH") || { echo "PATCH-FAILED"; exit 3; }
if [ "${1:-}" = "--tests" ]; then
  shift
  (cd "$S" && PYTHONPATH="$S" /venv/bin/python -m pytest -q -p no:cacheprovider -x 2>&1 | tail -2)
fi
cd /verif
for id in "$@"; do
  VERIF_REPO="$S" VERIF_NOEVIDENCE=1 ./check "$id" quick 2>&1 | grep -E "VIOLATION|HARNESS|^C[0-9]+ " | head -${VERIF_HEAD:-4}
done
