#!/usr/bin/env python3
"""Regenerates /verif/MANIFEST.json from the table below (keeps it valid while checks are added)."""
import json
import os

HERE = os.path.dirname(os.path.dirname(os.path.abspath(__file__)))

# id: (technique, level text, level note, design ref)
CHECKS = {}
NOT_APPLICABLE = {}


def load_table():
    import importlib.util

    spec = importlib.util.spec_from_file_location("table", os.path.join(HERE, "tools", "manifest_table.py"))
    m = importlib.util.module_from_spec(spec)
    spec.loader.exec_module(m)
    return m.CHECKS, m.NOT_APPLICABLE


def main():
    checks, na = load_table()
    man = {
        "version": 1,
        "setup_cmd": "true",
        "hooks": {
            "guard": "ROBOTOOLS_VERIF",
            "enable": "no source hooks are needed: the explorer drives and observes robotools through its public API from outside; checks import robotools from /repo's working tree (or $VERIF_REPO) in a fresh interpreter",
            "baseline_off_cmd": "cd /repo && /venv/bin/python -m pytest -ra -q -p no:cacheprovider --timeout=900 --continue-on-collection-errors",
            "source_commits": [],
            "add_only": True,
        },
        "engines": [
            {
                "name": "rtmc",
                "path": "rtmc/",
                "serves_properties": sorted(checks),
                "kind_free_text": "hand-written explicit-state explorer over real robotools objects (level-synchronous BFS with canonical-state deduplication) and exhaustive input-lattice enumerator; independent reference models in rtmc/ref",
            }
        ],
        "checks": [],
        "notes": "All checks: exit 0 = held on everything explored, exit 1 + VIOLATION line = violation, exit 2 = harness error (vacuity / non-reproducible). See DESIGN.md.",
        "not_applicable": [{"property_id": k, "reason": v} for k, v in sorted(na.items())],
    }
    for pid in sorted(checks):
        c = checks[pid]
        man["checks"].append(
            {
                "property_id": pid,
                "quick_cmd": f"./check {pid} quick",
                "thorough_cmd": f"./check {pid} thorough",
                "evidence_file": f"evidence/{pid}.json",
                "replay_cmd_template": "./check replay {path}",
                "engine": "rtmc",
                "level_claimed": {"category": "model_checking", "text": c["text"], "design_ref": c["design_ref"]},
                "level_note": c["note"],
                "technique": c["technique"],
            }
        )
    with open(os.path.join(HERE, "MANIFEST.json"), "w") as f:
        json.dump(man, f, indent=1)
    print(f"MANIFEST.json: {len(man['checks'])} checks, {len(man['not_applicable'])} not applicable")


if __name__ == "__main__":
    main()
