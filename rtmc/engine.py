"""rtmc engine: bounded exhaustive exploration of the real robotools code.

Two runners:

* ``explore``      regime A - level-synchronous breadth-first search over real objects
                   (states are pickled worlds; deduplicated by the harness' canonical projection)
* ``run_lattice``  regime B - complete enumeration of a finite input lattice, split in chunks

plus evidence writing, replay artefacts and the known-findings mechanism.
Nothing in here samples: VERIF_SEED only selects which explored cases are echoed as samples.
"""
import collections
import hashlib
import json
import multiprocessing as mp
import os
import pickle
import random
import sys
import time
import traceback

VERIF_DIR = os.path.dirname(os.path.dirname(os.path.abspath(__file__)))
REPO = os.path.realpath(os.environ.get("VERIF_REPO", "/repo"))
SEED = int(os.environ.get("VERIF_SEED", "0") or 0)
NPROC = int(os.environ.get("VERIF_JOBS", "0") or 0) or min(16, os.cpu_count() or 1)
BUDGET_S = float(os.environ.get("VERIF_BUDGET_S", "0") or 0)
MAX_REPLAYS_PER_CLAUSE = 3


def bind_repo():
    """Import robotools from the working tree under test and nowhere else."""
    os.environ.setdefault("ROBOTOOLS_VERIF", "1")
    if REPO not in sys.path:
        sys.path.insert(0, REPO)
    import logging
    import warnings

    warnings.simplefilter("ignore")
    logging.disable(logging.CRITICAL)
    import robotools

    here = os.path.realpath(robotools.__file__)
    if not here.startswith(REPO + os.sep):
        raise SystemExit(f"HARNESS-ERROR: robotools imported from {here}, expected below {REPO}")
    return robotools


def repo_head():
    try:
        import subprocess

        return subprocess.run(
            ["git", "-C", REPO, "rev-parse", "HEAD"], capture_output=True, text=True, timeout=20
        ).stdout.strip()
    except Exception:
        return "unknown"


def jdump(x):
    return json.dumps(x, sort_keys=True, separators=(",", ":"), default=str)


def digest(b):
    if isinstance(b, str):
        b = b.encode("utf-8", "surrogatepass")
    return hashlib.blake2b(b, digest_size=10).digest()


class Stats:
    """Mergeable per-worker statistics."""

    def __init__(self):
        self.evaluations = 0
        self.transitions = 0
        self.outcomes = collections.Counter()
        self.nontrivial = set()  # digests of distinct non-trivial cases
        self.violations = []  # (clause, case, detail)
        self.nviol = collections.Counter()
        self.samples = []  # reservoir of explored cases (chosen deterministically from seed)
        self.reached = set()  # harness specific reachability markers (vacuity checks)
        self.extra = collections.Counter()
        self._rng = random.Random(SEED)
        self._seen = 0

    def case(self, outcome, case=None, nontrivial_key=None):
        self.evaluations += 1
        self.outcomes[outcome] += 1
        if nontrivial_key is not None:
            self.nontrivial.add(digest(nontrivial_key) if not isinstance(nontrivial_key, bytes) or len(nontrivial_key) != 10 else nontrivial_key)
        if case is not None:
            self._seen += 1
            if len(self.samples) < 6:
                self.samples.append(case)
            else:
                j = self._rng.randrange(self._seen)
                if j < 6:
                    self.samples[j] = case

    def violation(self, clause, case, detail):
        self.nviol[clause] += 1
        if sum(1 for v in self.violations if v[0] == clause) < 40:
            self.violations.append((clause, case, detail))

    def merge(self, o):
        self.evaluations += o.evaluations
        self.transitions += o.transitions
        self.outcomes.update(o.outcomes)
        self.nontrivial |= o.nontrivial
        self.nviol.update(o.nviol)
        for v in o.violations:
            if sum(1 for w in self.violations if w[0] == v[0]) < 40:
                self.violations.append(v)
        self.reached |= o.reached
        self.extra.update(o.extra)
        for s in o.samples:
            self._seen += 1
            if len(self.samples) < 6:
                self.samples.append(s)
            else:
                j = self._rng.randrange(self._seen)
                if j < 6:
                    self.samples[j] = s


# ----------------------------------------------------------------------------------------------
# known findings
# ----------------------------------------------------------------------------------------------


def load_known(pid):
    path = os.path.join(VERIF_DIR, "known_findings.json")
    if not os.path.exists(path):
        return []
    with open(path) as f:
        data = json.load(f)
    return [e for e in data.get("findings", []) if e.get("property") == pid and e.get("status") == "open"]


def run_tmp():
    """Scratch directory of this check run (memory-backed where possible).  Created by the main process before it forks
    its workers, inherited through the environment, removed by the command line wrapper when the run ends."""
    import tempfile

    d = os.environ.get("RTMC_RUN_TMP")
    if not d or not os.path.isdir(d):
        base = "/dev/shm" if os.path.isdir("/dev/shm") and os.access("/dev/shm", os.W_OK) else None
        d = tempfile.mkdtemp(prefix="rtmc-run-", dir=base)
        os.environ["RTMC_RUN_TMP"] = d
    return d


def remove_run_tmp():
    import shutil

    d = os.environ.pop("RTMC_RUN_TMP", None)
    if d and os.path.basename(d).startswith("rtmc-run-"):
        shutil.rmtree(d, ignore_errors=True)


def case_signature(clause, case):
    return hashlib.sha1((clause + "|" + jdump(case)).encode()).hexdigest()[:16]


# ----------------------------------------------------------------------------------------------
# regime B
# ----------------------------------------------------------------------------------------------

_H = None  # harness object, inherited by forked workers


def _lattice_worker(chunk):
    st = Stats()
    try:
        _H.run_chunk(chunk, st)
    except BaseException:
        st.extra["__worker_error__"] += 1
        st.violations.append(("HARNESS-ERROR", {"chunk": chunk}, traceback.format_exc()))
    return st


def run_lattice(h, tier):
    global _H
    _H = h
    t0 = time.time()
    total = Stats()
    chunks = list(h.chunks(tier))
    capped = False
    if NPROC > 1 and len(chunks) > 1:
        ctx = mp.get_context("fork")
        with ctx.Pool(NPROC) as pool:
            for st in pool.imap_unordered(_lattice_worker, chunks, chunksize=1):
                total.merge(st)
                if BUDGET_S and time.time() - t0 > BUDGET_S:
                    capped = True
                    pool.terminate()
                    break
    else:
        for c in chunks:
            total.merge(_lattice_worker(c))
            if BUDGET_S and time.time() - t0 > BUDGET_S:
                capped = True
                break
    cov = {
        "states": max(1, len(total.nontrivial)),
        "transitions": max(1, total.evaluations),
        "traces_validated_against_impl": total.evaluations,
        "chunks": len(chunks),
        "exhaustive": not capped,
    }
    if capped:
        cov["cap_hit"] = f"VERIF_BUDGET_S={BUDGET_S}"
    return total, cov, time.time() - t0


# ----------------------------------------------------------------------------------------------
# regime A
# ----------------------------------------------------------------------------------------------


def _fresh_world(config, path):
    """the same state reached on fresh objects by re-executing the history in this process (live objects rarely
    copy faithfully: module-level caches and memory shared between arrays do not survive pickling)"""
    from .harness.common import clear_caches

    clear_caches()
    w = _H.init(config)
    for e in path:
        _H.step(w, e, config)
    return w


def _expand_worker(task):
    """task = (ci, config, do_core, fresh, [(path, pickled_world), ...])"""
    from .harness.common import clear_caches

    ci, config, do_core, fresh, items = task
    fresh = fresh or bool(config.get("fresh"))  # configurations whose point is memory shared between live objects
    st = Stats()
    succ = {}
    try:
        for path, blob in items:
            w0 = pickle.loads(blob)
            core = _H.core_events(w0, config) if do_core else []
            coreset = set(jdump(e) for e in core)
            evs = [(e, True) for e in core]
            for e in _H.full_events(w0, config):
                if jdump(e) not in coreset:
                    evs.append((e, False))
            for ev, is_core in evs:
                if fresh:
                    w = _fresh_world(config, path)
                    st.extra["fresh_replays"] += 1
                    if _H.canon(w, config) != _H.canon(w0, config):
                        st.violations.append(("HARNESS-ERROR", {"config": config, "events": path}, "state reached by replaying the history on fresh objects differs from the stored state (hidden state or nondeterminism)"))
                else:
                    clear_caches()
                    w = pickle.loads(blob)
                res = _H.step(w, ev, config)
                st.transitions += 1
                case = {"config": config, "events": path + [ev]}
                st.case(res.get("outcome", "ok"), case, res.get("nontrivial"))
                for m in res.get("reached", ()):
                    st.reached.add(m)
                for clause, detail in res.get("violations", ()):
                    st.violation(clause, case, detail)
                if is_core and res.get("expand", True):
                    c = digest(_H.canon(w, config))
                    if c not in succ:
                        succ[c] = (path + [ev], pickle.dumps(w, protocol=pickle.HIGHEST_PROTOCOL))
    except BaseException:
        st.extra["__worker_error__"] += 1
        st.violations.append(("HARNESS-ERROR", {"config": config}, traceback.format_exc()))
    return ci, st, succ


AUDIT_PAIRS = 240  # thorough tier; the quick tier audits AUDIT_PAIRS_QUICK merged histories
AUDIT_PAIRS_QUICK = 32
REPS_MAX = 30000
FRESH_MAX_LEVEL = 2


def _audit_worker(item):
    """expand two different histories that share a canonical state with every event; observations must agree.
    History b was merged away by the search, so what it shows is new: its violations are reported as such."""
    ci, config, path_a, blob_a, path_b, blob_b = item
    bad = []
    viol = []
    n = 0
    try:
        evs = _H.full_events(pickle.loads(blob_a), config)
        for ev in evs:
            wa, wb = pickle.loads(blob_a), pickle.loads(blob_b)
            ra, rb = _H.step(wa, ev, config), _H.step(wb, ev, config)
            n += 1
            oa = (ra.get("outcome"), sorted(c for c, _ in ra.get("violations", ())), digest(_H.canon(wa, config)).hex())
            ob = (rb.get("outcome"), sorted(c for c, _ in rb.get("violations", ())), digest(_H.canon(wb, config)).hex())
            if oa != ob:
                if rb.get("violations") or ra.get("violations"):
                    side, path = (rb, path_b) if rb.get("violations") else (ra, path_a)
                    for clause, detail in side["violations"][:3]:
                        viol.append((clause, {"config": config, "events": path + [ev]}, detail))
                else:
                    bad.append({"config": config, "history_a": path_a, "history_b": path_b, "event": ev, "obs_a": oa, "obs_b": ob})
    except BaseException:
        bad.append({"error": traceback.format_exc()})
    return 1, n, bad, viol


def explore(h, tier):
    """Level-synchronous BFS.  Covered set = every sequence of <= depth core events followed by any
    one event of the full alphabet, from every initial configuration."""
    global _H
    _H = h
    t0 = time.time()
    total = Stats()
    depth = h.depth(tier)
    configs = list(h.configs(tier))
    seen = set()
    frontier = []  # (ci, path, blob)
    for ci, cfg in enumerate(configs):
        w = h.init(cfg)
        seen.add(digest(jdump(ci).encode() + digest(h.canon(w, cfg))))
        frontier.append((ci, [], pickle.dumps(w, protocol=pickle.HIGHEST_PROTOCOL)))
    capped = None
    levels = []
    audit = not os.environ.get("VERIF_NOAUDIT")
    npairs_max = AUDIT_PAIRS if tier == "thorough" or os.environ.get("VERIF_AUDIT") else AUDIT_PAIRS_QUICK
    reps = {}  # canonical key -> (path, blob) of the history that represents it (levels <= 2)
    fresh = tier == "thorough" or bool(os.environ.get("VERIF_FRESH")) or bool(getattr(h, "fresh_quick", False))
    merged = []
    audit_result = {"pairs": 0, "expansions": 0, "mismatches": 0}
    pool = mp.get_context("fork").Pool(NPROC) if NPROC > 1 else None
    try:
        for level in range(depth + 1):
            do_core = level < depth
            CH = 8 if len(frontier) > 64 * NPROC else 1
            by_cfg = collections.defaultdict(list)
            for ci, path, blob in frontier:
                by_cfg[ci].append((path, blob))
            tasks = []
            for ci, items in by_cfg.items():
                for i in range(0, len(items), CH):
                    tasks.append((ci, configs[ci], do_core, fresh and level <= (FRESH_MAX_LEVEL if tier == "thorough" else 1), items[i : i + CH]))
            it = pool.imap_unordered(_expand_worker, tasks, chunksize=1) if pool else map(_expand_worker, tasks)
            newfrontier = []
            this_level = {}
            done = 0
            for ci, st, succ in it:
                total.merge(st)
                done += 1
                for c, (path, blob) in succ.items():
                    key = digest(jdump(ci).encode() + c)
                    if key not in seen:
                        seen.add(key)
                        this_level[key] = len(newfrontier)
                        newfrontier.append((ci, path, blob))
                        if audit and level <= 2 and len(reps) < REPS_MAX:
                            reps[key] = (path, blob)
                    elif audit and key in reps and jdump(reps[key][0]) != jdump(path):
                        # a different history (of the same or a greater length) reaches a state that is already
                        # represented: keep the npairs_max such histories with the smallest digest (a bounded,
                        # schedule-independent choice) for the audit below
                        item = (digest(jdump([ci, path]).encode()), ci, path, blob, key)
                        if len(merged) < npairs_max:
                            merged.append(item)
                            merged.sort()
                        elif item[0] < merged[-1][0]:
                            merged[-1] = item
                            merged.sort()
                if BUDGET_S and time.time() - t0 > BUDGET_S and done < len(tasks):
                    capped = f"VERIF_BUDGET_S={BUDGET_S} hit at level {level} after {done}/{len(tasks)} tasks"
                    break
            levels.append({"level": level, "expanded_states": len(frontier), "new_states": len(newfrontier)})
            if capped:
                if pool:
                    pool.terminate()
                    pool = None
                break
            # deterministic order independent of worker scheduling
            newfrontier.sort(key=lambda t: (t[0], len(t[1]), jdump(t[1])))
            frontier = newfrontier
            if not do_core or not frontier:
                break
        # canonicalisation audit: histories that were merged into one canonical state must have the same futures
        if audit and merged and not capped:
            items = [(ci, configs[ci], reps[key][0], reps[key][1], path, blob) for _, ci, path, blob, key in merged]
            audit_result["cross_level_pairs"] = sum(1 for a in items if len(a[2]) != len(a[4]))
            it = pool.imap_unordered(_audit_worker, items, chunksize=1) if pool else map(_audit_worker, items)
            for npairs, nexp, bad, viol in it:
                audit_result["pairs"] += npairs
                audit_result["expansions"] += nexp
                audit_result["mismatches"] += len(bad)
                audit_result["violations_on_merged_histories"] = audit_result.get("violations_on_merged_histories", 0) + len(viol)
                for clause, case, detail in viol:
                    total.violation(clause, case, detail)
                for b in bad[:2]:
                    total.violations.append(("HARNESS-ERROR", {"audit": b}, "canonicalisation audit: merged states have different futures: " + jdump(b)[:1500]))
    finally:
        if pool:
            pool.close()
            pool.join()
    cov = {
        "canonicalisation_audit": dict(audit_result, rule=f"the {npairs_max} histories with the smallest digest among those merged into an already represented state (representatives of levels <= 2) are expanded with the full alphabet next to the representative") if audit else "switched off (VERIF_NOAUDIT)",
        "fresh_object_replay": f"every transition up to level {FRESH_MAX_LEVEL if tier == 'thorough' else 1} re-executed from a fresh world" if fresh else "not in this tier (states restored from pickles, caches cleared before every transition)",
        "states": len(seen),
        "transitions": total.transitions,
        "traces_validated_against_impl": total.transitions,
        "depth_bound": depth,
        "levels": levels,
        "configurations": len(configs),
        "exhaustive": capped is None,
    }
    if capped:
        cov["cap_hit"] = capped
    return total, cov, time.time() - t0


# ----------------------------------------------------------------------------------------------
# reporting
# ----------------------------------------------------------------------------------------------


def write_replay(pid, clause, case, detail):
    d = os.path.join(VERIF_DIR, "replays", pid)
    os.makedirs(d, exist_ok=True)
    sig = case_signature(clause, case)
    safe = "".join(ch if ch.isalnum() or ch in "-_." else "_" for ch in clause)[:60]
    path = os.path.join(d, f"{safe}-{sig}.json")
    with open(path, "w") as f:
        json.dump(
            {"property": pid, "clause": clause, "case": case, "detail": detail, "repo_head": repo_head()},
            f,
            indent=1,
            default=str,
        )
    return path


def finish(h, tier, total, cov, wall):
    pid = h.id
    known = load_known(pid)
    known_sigs = {e["signature"]: e for e in known}
    rc = 0
    harness_errors = [v for v in total.violations if v[0] == "HARNESS-ERROR"]
    for v in harness_errors[:3]:
        print(f"HARNESS-ERROR property={pid}\n{v[2]}", file=sys.stderr)
    vac = list(h.vacuity(total, tier)) if hasattr(h, "vacuity") else []
    for msg in vac:
        print(f"HARNESS-ERROR property={pid} vacuity: {msg}", file=sys.stderr)
    real = [v for v in total.violations if v[0] != "HARNESS-ERROR"]
    reported = 0
    per_clause = collections.Counter()
    printed_known = set()
    reported_sigs = set()
    unlisted = 0
    for clause, case, detail in real:
        sig = case_signature(clause, case)
        if sig in known_sigs:
            if sig not in printed_known:
                printed_known.add(sig)
                print(f"KNOWN-FINDING: property={pid} {known_sigs[sig].get('what', clause)}")
            continue
        unlisted += 1
        if per_clause[clause] >= MAX_REPLAYS_PER_CLAUSE or sig in reported_sigs:
            continue
        reported_sigs.add(sig)
        # determinism: the same case must fail the same way twice on fresh objects
        try:
            r1 = h.replay(case)
            r2 = h.replay(case)
        except BaseException:
            print(f"HARNESS-ERROR property={pid} replay crashed\n{traceback.format_exc()}", file=sys.stderr)
            harness_errors.append(("HARNESS-ERROR", case, "replay crashed"))
            continue
        # the clause must fail again in both replays; the wording of the detail may differ when the implementation
        # itself is not deterministic (e.g. an unseeded random generator), which does not make the finding less real
        if clause not in [c for c, _ in r1] or clause not in [c for c, _ in r2]:
            print(
                f"HARNESS-ERROR property={pid} violation of {clause} is not reproducible on replay: {jdump(case)[:400]}",
                file=sys.stderr,
            )
            harness_errors.append(("HARNESS-ERROR", case, "not reproducible"))
            continue
        per_clause[clause] += 1
        path = write_replay(pid, clause, case, detail)
        print(f"VIOLATION property={pid} replay={path}")
        print(f"  clause={clause} detail={str(detail)[:500]}")
        reported += 1
        rc = 1
    nviol_total = sum(n for c, n in total.nviol.items() if c != "HARNESS-ERROR")
    coverage = dict(cov)
    coverage.update(
        {
            "evaluations": total.evaluations,
            "distinct_nontrivial": len(total.nontrivial),
            "rule": h.rule,
            "samples": total.samples[:6] or [{"note": "no case recorded"}],
            "outcome_histogram": dict(sorted(total.outcomes.items(), key=lambda kv: -kv[1])[:60]),
            "distinct_outcomes": len(total.outcomes),
            "violations_by_clause": dict(total.nviol),
            "reached": sorted(total.reached)[:200],
            "extra": dict(total.extra),
            "bounds": h.bounds(tier) if hasattr(h, "bounds") else {},
            "repo": REPO,
            "repo_head": repo_head(),
        }
    )
    ev = {
        "property_id": pid,
        "tier": tier,
        "seed": SEED,
        "level": "model_checking",
        "coverage": coverage,
        "assumptions": list(getattr(h, "assumptions", [])),
        "wall_s": round(wall, 3),
        "violations": nviol_total,
    }
    if not os.environ.get("VERIF_NOEVIDENCE"):
        os.makedirs(os.path.join(VERIF_DIR, "evidence"), exist_ok=True)
        with open(os.path.join(VERIF_DIR, "evidence", f"{pid}.json"), "w") as f:
            json.dump(ev, f, indent=1, default=str)
    print(
        f"{pid} {tier}: states={coverage['states']} transitions={coverage['transitions']} evaluations={total.evaluations} "
        f"distinct_nontrivial={len(total.nontrivial)} outcomes={len(total.outcomes)} violations={nviol_total} "
        f"exhaustive={coverage['exhaustive']} wall={wall:.1f}s"
    )
    if harness_errors or vac:
        return 2 if rc == 0 else rc
    return rc
