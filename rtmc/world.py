"""Worlds of real robotools objects, a JSON event language to drive them, and snapshots.

Everything that *executes* goes through the real library; everything that *predicts* lives in
rtmc.ref and in the harnesses.
"""
from fractions import Fraction

import numpy as np

from .engine import bind_repo
from .ref.numbering import Geo, well_id

rt = bind_repo()
from robotools.evotools.types import Tip  # noqa: E402

class NotebookWorklist(rt.EvoWorklist):
    """a user subclass with a compact display for notebooks"""

    def __repr__(self):
        return f"<NotebookWorklist: {len(self)} records>"

    __str__ = __repr__


class FsPath:
    """a path-like object that is neither str nor pathlib.Path (os.PathLike protocol)"""

    def __init__(self, p):
        self.p = p

    def __fspath__(self):
        return self.p


WLCLS = {
    "NotebookWorklist": NotebookWorklist,
    "EvoWorklist": rt.EvoWorklist,
    "FluentWorklist": rt.FluentWorklist,
    "BaseWorklist": rt.BaseWorklist,
}
DEVICE = {"NotebookWorklist": "evo", "EvoWorklist": "evo", "FluentWorklist": "fluent", "BaseWorklist": "base"}


# ------------------------------------------------------------------ specs
def plate(name, rows, cols, vmin, vmax, init=0, names=None):
    return {"name": name, "kind": "plate", "rows": rows, "cols": cols, "min": vmin, "max": vmax, "init": init, "names": names}


def trough(name, vrows, cols, vmin, vmax, init=0, names=None):
    return {"name": name, "kind": "trough", "rows": vrows, "cols": cols, "min": vmin, "max": vmax, "init": init, "names": names}


def geo_of(spec):
    return Geo(spec["name"], spec["kind"], spec["rows"], spec["cols"], spec["min"], spec["max"])


def init_matrix(spec):
    """initial volume of every real cell {(r, c): number} as the spec describes it"""
    g = geo_of(spec)
    init = spec["init"]
    out = {}
    for r, c in g.real_wells():
        if isinstance(init, (int, float)):
            out[(r, c)] = init
        elif spec["kind"] == "trough":
            out[(r, c)] = init[c]
        else:
            out[(r, c)] = init[r][c]
    return out


def default_component_names(spec):
    """{(r, c): name} for initially non-empty real wells, by the rule stated in C05.

    Single-row multi-column plates are unspecified by the statement; None is returned for them and the
    caller reads the names off the implementation."""
    g = geo_of(spec)
    vols = init_matrix(spec)
    names = spec.get("names")
    out = {}
    for (r, c), v in vols.items():
        if v == 0:
            continue
        given = None
        if names:
            if spec["kind"] == "trough":
                given = names[c]
            else:
                given = names.get(well_id(r, c))
        if given is not None:
            out[(r, c)] = given
        elif g.rows * g.cols == 1:
            out[(r, c)] = spec["name"]
        elif spec["kind"] == "trough" and spec.get("generic"):
            out[(r, c)] = None  # only distinctness per column is specified; the form is read off the implementation
        elif spec["kind"] == "trough":
            out[(r, c)] = f"{spec['name']}.column_{c + 1:02d}"
        elif g.rows > 1:
            out[(r, c)] = f"{spec['name']}.{well_id(r, c)}"
        else:
            out[(r, c)] = None
    return out


def initial_contents(spec, by="origin"):
    """{cell: (volume, {origin: amount})} with one origin per initially filled well"""
    out = {}
    for cell, v in init_matrix(spec).items():
        v = Fraction(v)
        out[cell] = (v, {f"{spec['name']}:{cell[0]},{cell[1]}": v} if v > 0 else {})
    return out


class NoCompositionLabware(rt.Labware):
    """a user subclass that opts out of composition tracking through the public hook"""

    def get_well_composition(self, well):
        return None


class CountingLabware(rt.Labware):
    """a user subclass that counts log entries; its counter exists only after the base constructor has run"""

    def __init__(self, *args, **kwargs):
        super().__init__(*args, **kwargs)
        self.n_logged = 0

    def log(self, label):
        self.n_logged += 1
        super().log(label)


SUBCLASSES = {"nocomp": NoCompositionLabware, "counting": CountingLabware}


def build_labware(spec, shared=None):
    if spec.get("subclass"):
        # a plate built through a user subclass of Labware
        cls = SUBCLASSES[spec["subclass"]]
        return cls(spec["name"], spec["rows"], spec["cols"], min_volume=spec["min"], max_volume=spec["max"], initial_volumes=spec["init"], component_names=spec.get("names"))
    if spec.get("label"):
        # the name robotools sees differs from the key the harness uses (two labware objects of one name)
        lw = build_labware({k: v for k, v in spec.items() if k != "label"}, shared)
        lw.name = spec["label"]
        return lw
    if spec.get("share") is not None and shared is not None:
        # several labware constructed from one and the same float64 array object (a user's template)
        arr = shared.setdefault(spec["share"], np.array(spec["init"], dtype=float))
        cls, extra = (rt.Trough, {"column_names": spec.get("names")}) if spec["kind"] == "trough" else (rt.Labware, {"component_names": spec.get("names")})
        return cls(spec["name"], spec["rows"], spec["cols"], min_volume=spec["min"], max_volume=spec["max"], initial_volumes=arr, **extra)
    if spec.get("generic") and spec["kind"] == "trough":
        # the same trough declared through the generic constructor (documented, emits a UserWarning)
        names = spec.get("names")
        cn = {well_id(0, c): n for c, n in enumerate(names) if n is not None} if names else None
        init = spec["init"] if isinstance(spec["init"], (int, float)) else [list(spec["init"])]
        return rt.Labware(spec["name"], 1, spec["cols"], min_volume=spec["min"], max_volume=spec["max"], initial_volumes=init, virtual_rows=spec["rows"], component_names=cn)
    if spec.get("np") and shared is not None:
        # the caller keeps its own array (float64, or the dtype named by the spec); the labware must neither
        # alias nor modify it, and must track volumes in double precision whatever it was given
        dt = float if spec["np"] is True else spec["np"]
        arr = shared.setdefault("caller:" + spec["name"], np.array(spec["init"], dtype=dt))
        cls, extra = (rt.Trough, {"column_names": spec.get("names")}) if spec["kind"] == "trough" else (rt.Labware, {"component_names": spec.get("names")})
        return cls(spec["name"], spec["rows"], spec["cols"], min_volume=spec["min"], max_volume=spec["max"], initial_volumes=arr, **extra)
    if spec["kind"] == "trough":
        return rt.Trough(
            spec["name"],
            spec["rows"],
            spec["cols"],
            min_volume=spec["min"],
            max_volume=spec["max"],
            initial_volumes=spec["init"],
            column_names=spec.get("names"),
        )
    return rt.Labware(
        spec["name"],
        spec["rows"],
        spec["cols"],
        min_volume=spec["min"],
        max_volume=spec["max"],
        initial_volumes=spec["init"],
        component_names=spec.get("names"),
    )


def build_worklist(ws):
    cls = WLCLS[ws["cls"]]
    kw = {k: v for k, v in ws.items() if k in ("max_volume", "auto_split", "diti_mode")}
    if ws.get("file"):
        # a worklist that is bound to a file (written when its `with` block is left)
        import os
        import tempfile

        from .engine import run_tmp

        kw["filepath"] = os.path.join(run_tmp(), f"ctx-{os.getpid()}-{ws['file']}.gwl")
    return cls(**kw)


def make_world(config):
    shared = {}
    return {
        "clone_before_each_event": config.get("clone"),
        "lw": {s["name"]: build_labware(s, shared) for s in config["labware"]},
        "wl": {k: build_worklist(ws) for k, ws in config.get("worklists", {}).items()},
        "shared": shared,
    }


# ------------------------------------------------------------------ argument decoding
def dec(x, W=None):
    if isinstance(x, dict):
        if "$a" in x:
            return np.array(dec(x["$a"], W))
        if "$af" in x:
            return np.asfortranarray(np.array(dec(x["$af"], W)))  # column-major memory layout
        if "$w2d" in x:
            name, r0, r1, c0, c1 = x["$w2d"]
            return W["lw"][name].wells[r0:r1, c0:c1]
        if "$enum" in x:
            return rt.Labwares[x["$enum"]]  # a member of robotools' own str-enum of built-in labware names
        if "$npstr" in x:
            return np.str_(x["$npstr"])
        if "$wells" in x:
            return W["lw"][x["$wells"]].wells  # the labware's own well-ID array (the object itself, not a copy)
        if "$hex" in x:
            return float.fromhex(x["$hex"])
        if "$tip" in x:
            return Tip[x["$tip"]]
        if "$tuple" in x:
            return tuple(dec(v, W) for v in x["$tuple"])
        if "$iter" in x:
            return iter([dec(v, W) for v in x["$iter"]])  # a one-shot iterator
        if "$set" in x:
            return set(dec(v, W) for v in x["$set"])
        if "$npf" in x:
            return np.float64(x["$npf"])
        if "$npi" in x:
            return np.int64(x["$npi"])
        if "$ma" in x:
            # a masked array (numpy.ma): the library converts its arguments with numpy.array, which keeps the data and
            # drops the mask
            return np.ma.MaskedArray(np.array(x["$ma"][0], dtype=float), mask=x["$ma"][1])
        if "$nps" in x:
            return np.dtype(x["$nps"][0]).type(x["$nps"][1])  # numpy scalar of the named dtype (uint8, int8, uint16, ...)
        if "$npa" in x:
            return np.array(x["$npa"][1], dtype=x["$npa"][0])
        if "$np32" in x:
            return np.float32(float.fromhex(x["$np32"]))  # single-precision scalar (hex of its exact value)
        if "$a32" in x:
            return np.array([float.fromhex(v) for v in x["$a32"]], dtype=np.float32)
        if "$none" in x:
            return None
        return {k: dec(v, W) for k, v in x.items()}
    if isinstance(x, list):
        return [dec(v, W) for v in x]
    return x


def ref_wells(x, config):
    """the same well argument as a plain (nested) list of IDs - computed without numpy"""
    if isinstance(x, dict) and "$w2d" in x:
        name, r0, r1, c0, c1 = x["$w2d"]
        spec = next(s for s in config["labware"] if s["name"] == name)
        g = geo_of(spec)
        rows = range(g.idrows)[r0:r1]
        cols = range(g.cols)[c0:c1]
        return [[well_id(r, c) for c in cols] for r in rows]
    if isinstance(x, dict) and "$wells" in x:
        g = geo_of(next(s for s in config["labware"] if s["name"] == x["$wells"]))
        return [[well_id(r, c) for c in range(g.cols)] for r in range(g.idrows)]
    if isinstance(x, dict) and "$a" in x:
        return ref_wells(x["$a"], config)
    if isinstance(x, dict) and "$af" in x:
        return ref_wells(x["$af"], config)
    if isinstance(x, dict) and "$tuple" in x:
        return list(x["$tuple"])
    return x


def ref_vols(x):
    if isinstance(x, dict):
        if "$a" in x:
            return ref_vols(x["$a"])
        if "$af" in x:
            return ref_vols(x["$af"])
        if "$hex" in x:
            return float.fromhex(x["$hex"])
        if "$npf" in x:
            return float(x["$npf"])
        if "$npi" in x:
            return int(x["$npi"])
        if "$ma" in x:
            return list(x["$ma"][0])
        if "$nps" in x:
            return x["$nps"][1]
        if "$npa" in x:
            return list(x["$npa"][1])
        if "$np32" in x:
            return float.fromhex(x["$np32"])
        if "$a32" in x:
            return [float.fromhex(v) for v in x["$a32"]]
        if "$tuple" in x:
            return [ref_vols(v) for v in x["$tuple"]]
    if isinstance(x, list):
        return [ref_vols(v) for v in x]
    return x


def fhex(v):
    """JSON-safe float"""
    v = float(v)
    if v != v or v in (float("inf"), float("-inf")) or v != float(repr(v)):
        return {"$hex": v.hex() if v == v and abs(v) != float("inf") else repr(v)}
    return v


# ------------------------------------------------------------------ execution
def pooled(x, W):
    """Decode an argument; list/array-valued arguments are decoded once per world and the *same object* is handed
    to every later call that names the same argument - like a user who keeps a list of wells or volumes in a
    variable.  A call that modifies what it was handed therefore changes the input of the next one."""
    if not isinstance(x, (list, dict)) or W is None:
        return dec(x, W)
    pool = W.setdefault("_argpool", {})
    import json

    key = json.dumps(x, sort_keys=True)
    if key not in pool:
        pool[key] = dec(x, W)
    return pool[key]


def clone_world(W, how):
    """Replace every labware and worklist of the world by a copy of itself (copy.deepcopy / copy.copy / a pickle round
    trip): a user may branch a plate or a worklist at any time and go on working with the copy."""
    import copy
    import pickle

    f = {"deepcopy": copy.deepcopy, "copy": copy.copy, "pickle": lambda o: pickle.loads(pickle.dumps(o))}[how]
    memo_pairs = {}
    for grp in ("lw", "wl"):
        for k, o in list(W[grp].items()):
            if id(o) not in memo_pairs:
                memo_pairs[id(o)] = f(o)
            W[grp][k] = memo_pairs[id(o)]


def exec_event(W, ev, reraise=False):
    """Apply one event to the real objects.  Returns (outcome, exception or None); with reraise=True an exception
    of the library propagates to the caller (who may be inside a `with` block of the worklist)."""
    op = ev[0]
    if W.get("clone_before_each_event"):
        clone_world(W, W["clone_before_each_event"])
    try:
        if op == "add":
            _, lw, wells, vols, kw = ev
            W["lw"][lw].add(pooled(wells, W), pooled(vols, W), **dec(kw, W))
        elif op == "remove":
            _, lw, wells, vols, kw = ev
            W["lw"][lw].remove(pooled(wells, W), pooled(vols, W), **dec(kw, W))
        elif op in ("aspirate", "dispense"):
            _, wl, lw, wells, vols, kw = ev
            getattr(W["wl"][wl], op)(W["lw"][lw], pooled(wells, W), pooled(vols, W), **dec(kw, W))
        elif op == "transfer":
            _, wl, src, sw, dst, dw, vols, kw = ev
            W["wl"][wl].transfer(W["lw"][src], pooled(sw, W), W["lw"][dst], pooled(dw, W), pooled(vols, W), **dec(kw, W))
        elif op == "distribute":
            _, wl, src, col, dst, dw, kw = ev
            W["wl"][wl].distribute(W["lw"][src], dec(col, W), W["lw"][dst], pooled(dw, W), **dec(kw, W))
        elif op in ("evo_aspirate", "evo_dispense"):
            _, wl, lw, wells, pos, tips, vols, lc, kw = ev
            getattr(W["wl"][wl], op)(W["lw"][lw], pooled(wells, W), dec(pos, W), pooled(tips, W), pooled(vols, W), lc, **dec(kw, W))
        elif op == "call":
            _, wl, meth, args, kw = ev
            getattr(W["wl"][wl], meth)(*dec(args, W), **dec(kw, W))
        elif op == "caller_write":
            # the caller re-uses the array it once handed to a constructor as initial_volumes
            _, key, value = ev
            W["shared"][key][...] = dec(value, W)
        elif op == "set_attr":
            # assignment to a public attribute of a live worklist (e.g. wl.max_volume = 200)
            _, wl, name, value = ev
            setattr(W["wl"][wl], name, dec(value, W))
        elif op == "list_op":
            # the worklist is a list: records edited through plain list methods (extend, pop, insert, ...)
            _, wl, meth, args = ev
            getattr(W["wl"][wl], meth)(*dec(args, W))
        else:
            raise RuntimeError(f"unknown event {op}")
    except Exception as e:  # observations, not crashes
        if reraise:
            raise
        return f"raised:{type(e).__name__}", e
    return "ok", None


def snap(W):
    """Deep snapshot of everything observable on the labware."""
    out = {}
    for n, lw in W["lw"].items():
        out[n] = {
            "vol": lw.volumes,
            "comp": {k: v.copy() for k, v in lw.composition.items()},
            "labels": [l for l, _ in lw.history],
            "hist": [h.copy() for _, h in lw.history],
        }
    return out


def exc_is(e, *names):
    return e is not None and any(c.__name__ in names for c in type(e).__mro__)
