"""C12 - the EVO well-selection string is a faithful, decodable bitmap."""
import math

import numpy as np

from ..ref import gwl
from ..ref.numbering import well_id
from . import common as cm

from robotools.evotools import commands  # noqa: E402


def families(R, C):
    """structured selections (as sets of (r, c)) for a geometry that is not enumerated completely"""
    allw = [(r, c) for c in range(C) for r in range(R)]
    n = len(allw)
    yield "empty", set()
    yield "full", set(allw)
    for w in allw:
        yield "single", {w}
    for w in allw:
        yield "cosingle", set(allw) - {w}
    for r in range(R):
        yield "row", {(r, c) for c in range(C)}
    for c in range(C):
        yield "column", {(r, c) for r in range(R)}
    for g in range((n + 6) // 7):
        yield "group7", set(allw[g * 7 : g * 7 + 7])
        if g * 7 + 7 < n:
            yield "boundary", {allw[g * 7 + 6], allw[g * 7 + 7]}
    yield "checker", {(r, c) for r, c in allw if (r + c) % 2 == 0}
    yield "checker", {(r, c) for r, c in allw if (r + c) % 2 == 1}
    yield "every7th", set(allw[6::7])


class Harness(cm.BaseB):
    id = "C12"
    rule = (
        "every geometry with rows*columns <= 14 (rows <= 26, columns <= 48): all 2^(R*C) subsets, with an injectivity "
        "count; every other geometry (quick: R in {1,2,3,7,8,16,26} x C in {1,2,3,7,12,24,48}; thorough: all 26 x 48): "
        "empty, full, every single well, every co-single, every row, every column, every aligned 7-well group, every "
        "pair straddling a group boundary, checkerboards; also through evo_make_selection_array from well IDs.  "
        "Decoded by an independent implementation of the EVOware rule.  non-trivial = non-empty selection; distinct = "
        "distinct (geometry, selection)"
    )
    assumptions = ["'randomly for the rest' of the statement is replaced by deterministic structured families (random selection would be sampling)"]

    def bounds(self, tier):
        return {"exhaustive_up_to_wells": 14, "rows": "1..26", "cols": "1..48"}

    def chunks(self, tier):
        out = []
        for R in range(1, 27):
            for C in range(1, 49):
                if R * C <= 14:
                    out.append({"k": "all", "R": R, "C": C})
        Rs = range(1, 27) if tier != "quick" else [1, 2, 3, 7, 8, 16, 26]
        Cs = range(1, 49) if tier != "quick" else [1, 2, 3, 7, 12, 24, 48]
        for R in Rs:
            out.append({"k": "fam", "R": R, "Cs": [C for C in Cs if R * C > 14]})
        # three-digit column numbers ("A100" sorts before "A11")
        for R in (1, 2, 8) if tier == "quick" else (1, 2, 3, 8, 16, 26):
            out.append({"k": "fam", "R": R, "Cs": [100, 128] if tier == "quick" else [99, 100, 101, 120, 128]})
        # sequences: the same process encodes a selection on one geometry and then on a different geometry with
        # the same number of wells (hidden state between calls must not leak)
        for n in list(range(2, 15)) + [16, 24, 96, 384]:
            out.append({"k": "pairs", "n": n})
        out.append({"k": "errors"})
        # the selection inside the script commands a worklist emits, for plates and both kinds of trough
        for kind in ("plate", "trough", "gtrough"):
            out.append({"k": "wl", "kind": kind})
        out.append({"k": "batch"})
        return out

    def run_pairs(self, chunk, st):
        n = chunk["n"]
        geos = [(R, n // R) for R in range(1, 27) if n % R == 0 and n // R <= 48]
        for (R1, C1) in geos:
            for (R2, C2) in geos:
                if (R1, C1) == (R2, C2):
                    continue
                idxs = [[], list(range(n)), [0], [n - 1], [1, n // 2]] + [[i] for i in range(1, min(n, 8))]
                for idx in idxs:
                    a1 = [(r, c) for c in range(C1) for r in range(R1)]
                    a2 = [(r, c) for c in range(C2) for r in range(R2)]
                    # same positions in row-major memory order (what a careless cache key would see)
                    sel1 = {divmod(i, C1) for i in idx}
                    sel2 = {divmod(i, C2) for i in idx}
                    case = {"seq": [[R1, C1, sorted(sel1)], [R2, C2, sorted(sel2)]]}
                    cm.clear_caches()
                    cm.vandalize_helpers(R1, C1)
                    cm.vandalize_helpers(R2, C2)
                    self.check(R1, C1, sel1, False)
                    outcome, key, viol, s_ = self.check(R2, C2, sel2, False)
                    st.case("pair", case if not idx else None, f"pair{case}")
                    for v in viol:
                        st.violation(v[0] + "/order-dependent", case, f"after encoding the same mask on {R1}x{C1}: {v[1]}")

    def run_batch(self, chunk, st):
        """several selection arrays of one geometry are built first and encoded afterwards (a list comprehension of
        arrays, then a loop over it): every string still decodes to its own selection"""
        for R, C in ((2, 3), (8, 12), (1, 8), (16, 24), (3, 1)):
            ids = [well_id(r, c) for c in range(C) for r in range(R)]
            sels = [[ids[0]], ids[: max(1, len(ids) // 2)], [ids[-1]], ids[1::2] or [ids[0]], [], ids]
            for order in (sels, sels[::-1]):
                case = {"batch": [R, C, order]}
                viol = self.one_batch(case)
                st.case("batch", case if R * C < 30 else None, f"batch{R}x{C}{len(order[0])}")
                for v in viol:
                    st.violation(v[0], case, v[1])

    def one_batch(self, case):
        R, C, sels = case["batch"]
        V = []
        try:
            arrays = [commands.evo_make_selection_array(R, C, list(w)) for w in sels]
            strings = [commands.evo_get_selection(R, C, a) for a in arrays]
        except Exception as e:
            return [("C12/raised", f"{R}x{C}: building {len(sels)} selection arrays and encoding them afterwards: {type(e).__name__}: {e}")]
        for w, s in zip(sels, strings):
            want = {(ord(x[0]) - 65, int(x[1:]) - 1) for x in w}
            cols, rows, got, pad = gwl.decode_selection(s)
            if got != want or (rows, cols) != (R, C):
                V.append(("C12/decoded-selection", f"{R}x{C}: {len(sels)} selection arrays were built first and encoded afterwards; the one for {list(w)[:6]} gives {s!r}, which decodes to {sorted(got)[:6]}"))
                break
        return V

    def run_errors(self, chunk, st):
        """a call that is refused half-way (unknown well after valid ones) must not influence the next call"""
        for R, C in ((4, 6), (8, 12), (2, 2), (3, 1), (16, 24)):
            ids = [well_id(r, c) for c in range(C) for r in range(R)]
            for bad in (["A01", "B1"], [ids[0], ids[-1], well_id(R, 0)], [ids[len(ids) // 2], "Z99"], [ids[1 % len(ids)], ""]):
                for good in ([ids[-1]], [ids[len(ids) // 3]], []):
                    case = {"errseq": [R, C, bad, good]}
                    viol = self.one_errseq(case)
                    st.case("errseq", case, f"err{case}")
                    for v in viol:
                        st.violation(v[0], case, v[1])

    def one_errseq(self, case):
        R, C, bad, good = case["errseq"]
        cm.clear_caches()
        V = []
        try:
            commands.evo_make_selection_array(R, C, bad)
            V.append(("C12/unknown-well-accepted", f"{R}x{C}: wells {bad} were accepted"))
        except Exception:
            pass
        try:
            arr = commands.evo_make_selection_array(R, C, good)
            s = commands.evo_get_selection(R, C, arr)
            cols, rows, got, pad = gwl.decode_selection(s)
        except Exception as e:
            return [("C12/raised", f"{R}x{C}: {good} after a refused call: {type(e).__name__}: {e}")]
        want = {(ord(w[0]) - 65, int(w[1:]) - 1) for w in good}
        if got != want or (rows, cols) != (R, C):
            V.append(("C12/decoded-selection/order-dependent", f"{R}x{C}: after a refused call with wells {bad}, selecting {good} gives {s!r} which decodes to {sorted(got)}"))
        return V

    def run_wl(self, chunk, st):
        for R, C in ((2, 1), (3, 2), (8, 3), (5, 12)):
            for c in sorted({0, C - 1}):
                for mask in range(1, 1 << R):
                    if R == 8 and mask % 3 and bin(mask).count("1") not in (1, 8):
                        continue
                    rows = [r for r in range(R) if mask >> r & 1]
                    case = {"wl": [chunk["kind"], R, C, c, rows]}
                    viol = self.one_wl(case)
                    st.case("wl:" + chunk["kind"], case if len(rows) > 1 else None, f"wl{case}")
                    for v in viol:
                        st.violation(v[0], case, v[1])

    def one_wl(self, case):
        from ..world import rt

        kind, R, C, c, rows = case["wl"]
        if kind == "plate":
            lw = rt.Labware("L", R, C, min_volume=0, max_volume=1e5, initial_volumes=1e4)
        elif kind == "trough":
            lw = rt.Trough("L", R, C, min_volume=0, max_volume=1e6, initial_volumes=[1e5] * C)
        else:
            lw = rt.Labware("L", 1, C, min_volume=0, max_volume=1e6, initial_volumes=[[1e5] * C], virtual_rows=R)
        wells = [well_id(r, c) for r in rows]
        V = []
        for op in ("evo_aspirate", "evo_dispense"):
            wl = rt.EvoWorklist(max_volume=950)
            try:
                getattr(wl, op)(lw, wells, (30, 2), list(range(1, len(rows) + 1)), 10.0, "LC")
                p = gwl.parse(wl[-1])
                cols, nrows, got, pad = gwl.decode_selection(p["selection"])
            except Exception as e:
                V.append(("C12/raised", f"{op} on a {kind} {R}x{C}, wells {wells}: {type(e).__name__}: {e}"))
                continue
            if (nrows, cols) != (R, C) or got != {(r, c) for r in rows} or pad:
                V.append(("C12/decoded-selection", f"{op} on a {kind} with {R} rows x {C} columns, wells {wells}: the command's selection {p['selection']!r} decodes to {nrows}x{cols} {sorted(got)}"))
        return V

    def run_chunk(self, chunk, st):
        cm.clear_caches()
        if chunk["k"] == "errors":
            return self.run_errors(chunk, st)
        if chunk["k"] == "wl":
            return self.run_wl(chunk, st)
        if chunk["k"] == "batch":
            return self.run_batch(chunk, st)
        if chunk["k"] == "pairs":
            return self.run_pairs(chunk, st)
        if chunk["k"] == "all":
            R, C = chunk["R"], chunk["C"]
            cm.vandalize_helpers(R, C)
            n = R * C
            allw = [(r, c) for c in range(C) for r in range(R)]
            strings = set()
            for mask in range(1 << n):
                sel = {allw[i] for i in range(n) if mask >> i & 1}
                case = {"R": R, "C": C, "sel": sorted(sel)}
                outcome, key, viol, s = self.check(R, C, sel, via_ids=(mask % 5 == 0))
                strings.add(s)
                st.case(outcome, case if mask % 257 == 1 else None, key)
                for v in viol:
                    st.violation(v[0], case, v[1])
            if len(strings) != 1 << n:
                st.violation("C12/not-injective", {"R": R, "C": C, "sel": "ALL"}, f"{R}x{C}: {1 << n} subsets gave {len(strings)} distinct strings")
            return
        R = chunk["R"]
        for C in chunk["Cs"]:
            cm.vandalize_helpers(R, C)
            for fam, sel in families(R, C):
                case = {"R": R, "C": C, "sel": sorted(sel) if len(sel) < 20 else fam, "family": fam}
                if len(sel) >= 20:
                    case["sel_full"] = sorted(sel)
                outcome, key, viol, s = self.check(R, C, sel, via_ids=fam in ("row", "column", "single"))
                st.case(fam, case if len(sel) < 20 else None, key)
                for v in viol:
                    st.violation(v[0], {"R": R, "C": C, "sel": sorted(sel)}, v[1])

    def replay(self, case):
        cm.clear_caches()
        if "R" in case:
            cm.vandalize_helpers(case["R"], case["C"])
        if "errseq" in case:
            return [[c, d] for c, d in self.one_errseq(case)]
        if "wl" in case:
            return [[c, d] for c, d in self.one_wl(case)]
        if "batch" in case:
            return [[c, d] for c, d in self.one_batch(case)]
        if "seq" in case:
            (R1, C1, s1), (R2, C2, s2) = case["seq"]
            cm.vandalize_helpers(R1, C1)
            cm.vandalize_helpers(R2, C2)
            self.check(R1, C1, {tuple(x) for x in s1}, False)
            return [[c + "/order-dependent", d] for c, d in self.check(R2, C2, {tuple(x) for x in s2}, False)[2]]
        if case["sel"] == "ALL":
            R, C = case["R"], case["C"]
            n = R * C
            allw = [(r, c) for c in range(C) for r in range(R)]
            strings = {self.check(R, C, {allw[i] for i in range(n) if m >> i & 1}, m % 5 == 0)[3] for m in range(1 << n)}
            return [] if len(strings) == 1 << n else [["C12/not-injective", f"{len(strings)} strings"]]
        sel = {tuple(x) for x in (case.get("sel_full") or case["sel"])}
        return [[c, d] for c, d in self.check(case["R"], case["C"], sel, False)[2]] + [[c, d] for c, d in self.check(case["R"], case["C"], sel, True)[2]]

    def check(self, R, C, sel, via_ids):
        V = []
        try:
            if via_ids:
                names = [well_id(r, c) for r, c in sorted(sel)]
                if len(names) % 2 == 1:
                    names = names + names[:1] + names[-1:]  # naming a well twice selects it once
                arr = commands.evo_make_selection_array(R, C, names)
                if arr.shape != (R, C) or {(int(r), int(c)) for r, c in zip(*np.nonzero(arr))} != sel:
                    V.append(("C12/selection-array", f"{R}x{C} {sorted(sel)[:6]}: evo_make_selection_array marks {np.argwhere(arr).tolist()[:8]}"))
            else:
                arr = np.zeros((R, C))
                for r, c in sel:
                    arr[r, c] = 1
            s = commands.evo_get_selection(R, C, arr)
            if (R == 1 or C == 1) and sel and R * C > 1:
                im = arr.astype(np.int64)
                im0 = im.copy()
                for attempt in (1, 2):
                    s2 = commands.evo_get_selection(R, C, im)
                    if s2 != s:
                        V.append(("C12/array-layout", f"{R}x{C} {sorted(sel)[:6]}: int64 mask gives {s2!r} (call #{attempt}), float mask gives {s!r}"))
                        break
                if not np.array_equal(im, im0):
                    V.append(("C12/array-layout", f"{R}x{C}: evo_get_selection modified the caller's int64 mask"))
            if R > 1 and C > 1 and sel and (len(sel) + R) % 3 == 0:
                # the same mask in column-major memory layout, as a transposed view, as bool and as int
                keep = arr.copy()
                alts = (
                    (np.asfortranarray(arr), "Fortran-ordered"), (np.ascontiguousarray(arr.T).T, "transposed view"), (arr.astype(bool), "bool"), (arr.astype(int), "int"),
                    (np.asfortranarray(arr.astype(np.int64)), "Fortran-ordered int64"), (np.ascontiguousarray(arr.astype(np.int64).T).T, "transposed int64 view"), (arr.astype(np.uint8), "uint8"),
                )
                for alt, name in alts:
                    alt0 = alt.copy()
                    for attempt in (1, 2):  # the caller uses its mask more than once
                        s2 = commands.evo_get_selection(R, C, alt)
                        if s2 != s:
                            V.append(("C12/array-layout", f"{R}x{C} {sorted(sel)[:6]}: {name} mask gives {s2!r} (call #{attempt}), C-ordered float mask gives {s!r}"))
                            break
                    if not np.array_equal(alt, alt0):
                        V.append(("C12/array-layout", f"{R}x{C}: evo_get_selection modified the caller's {name} mask"))
                if not np.array_equal(arr, keep):
                    V.append(("C12/array-layout", f"{R}x{C}: evo_get_selection modified the caller's mask"))
        except Exception as e:
            return "raised", None, [("C12/raised", f"{R}x{C}: {type(e).__name__}: {e}")], None
        n = R * C
        if len(s) != 4 + math.ceil(n / 7):
            V.append(("C12/length", f"{R}x{C}: {len(s)} characters, expected {4 + math.ceil(n / 7)}"))
        if any(not 48 <= ord(ch) <= 175 for ch in s[4:]):
            V.append(("C12/character-range", f"{R}x{C}: {[ord(ch) for ch in s[4:]][:10]}"))
        try:
            cols, rows, got, pad = gwl.decode_selection(s)
            if (rows, cols) != (R, C):
                V.append(("C12/dimensions", f"{R}x{C}: header {s[:4]!r} decodes to {rows}x{cols}"))
            elif got != sel:
                V.append(("C12/decoded-selection", f"{R}x{C}: selected {sorted(sel)[:8]} decoded {sorted(got)[:8]} from {s!r}"))
            if pad:
                V.append(("C12/padding-bits", f"{R}x{C}: {pad} padding bits set in {s!r}"))
            if not s[:4].isupper() and not s[:4].isdigit() and s[:4] != s[:4].upper():
                V.append(("C12/dimensions", f"header not upper-case hex: {s[:4]!r}"))
        except gwl.ParseError as e:
            V.append(("C12/undecodable", f"{R}x{C} {sorted(sel)[:6]}: {s!r}: {e}"))
        return ("sel" if sel else "empty"), (f"{R}x{C}:{s}" if sel else None), V, s
