"""C13 - EVO script commands agree with the volume tracking and with their arguments."""
import itertools
from fractions import Fraction

from ..ref import gwl
from ..ref.numbering import Geo, well_id
from ..ref.robot import Robot
from ..world import dec, rt
from . import common as cm

from robotools.evotools import commands  # noqa: E402

LABWARE = {
    "p23": ("plate", 2, 3),
    "p22": ("plate", 2, 2),
    "p32": ("plate", 3, 2),
    "p83": ("plate", 8, 3),
    "t32": ("trough", 3, 2),
    "g42": ("gtrough", 4, 2),  # a trough declared as Labware(rows=1, virtual_rows=4)
}
# ints are tip numbers, Tip members compare like their bit value: Tip.T3 == 4, and (Tip.T4, 5) is ascending by tip
# number but descending by raw value
TIPSYMS = [1, 2, 5, 8, {"$tip": "T2"}, {"$tip": "Any"}, 4, {"$tip": "T3"}, {"$tip": "T4"}]
MAXV = 50


def wells_of(lw):
    kind, R, C = LABWARE[lw]
    return [well_id(r, 0) for r in range(min(R, 3))] + [well_id(r, 1) for r in range(min(R, 2))]


def build(lw, init=500.0):
    kind, R, C = LABWARE[lw]
    if kind == "gtrough":
        return rt.Labware("L", 1, C, min_volume=0, max_volume=50000, initial_volumes=[[init * 10] * C], virtual_rows=R), Geo("L", "trough", R, C, 0, 50000)
    if kind == "plate":
        return rt.Labware("L", R, C, min_volume=0, max_volume=5000, initial_volumes=init), Geo("L", "plate", R, C, 0, 5000)
    return rt.Trough("L", R, C, min_volume=0, max_volume=50000, initial_volumes=[init * 10] * C), Geo("L", "trough", R, C, 0, 50000)


def tipnum(t):
    if isinstance(t, dict):
        return -1 if t["$tip"] == "Any" else int(t["$tip"][1:])
    return t


WASH_DEFAULT = dict(tips=[1, 2], waste_location=[52, 2], cleaner_location=[52, 1], arm=0, waste_vol=3.0, waste_delay=500, cleaner_vol=4.0, cleaner_delay=500, airgap=10, airgap_speed=70, retract_speed=30, fastwash=1, low_volume=0)
# parameter -> [(value, valid)]
WASH_CLASSES = {
    "tips": [([{"$tip": "T1"}, 8], True), ([3], True), ([1, 2, 3, 4, 5, 6, 7, 8], True), ([0], False), ([9], False),
             ({"$iter": [1, {"$tip": "T3"}, 8]}, True), ({"$tuple": [2, 4]}, True), ({"$iter": [1, 9]}, False), ({"$iter": [{"$tip": "Any"}]}, False)],
    "waste_location": [([0, 2], False), ([1, 1], True), ([67, 128], True), ([68, 2], False), ([52, 0], False), ([52, 129], False), ([1.0, 2], False), ([52, "1"], False)],
    "cleaner_location": [([0, 1], False), ([1, 128], True), ([67, 1], True), ([68, 1], False), ([52, 0], False), ([52, 129], False)],
    "arm": [(-1, False), (1, True), (2, False), ({"$none": 1}, False)],
    "waste_vol": [(-0.1, False), (0, True), (100, True), (100.1, False), ("3", False), (3.14159, True), (0.25, True), (100.04, False), (-0.04, False), (-1e-9, False), (99.96, True)],
    "waste_delay": [(-1, False), (0, True), (1000, True), (1001, False), (1.5, False)],
    "cleaner_vol": [(-1, False), (0.0, True), (100.0, True), (101, False), (7.77, True), (100.01, False), (-0.001, False)],
    "cleaner_delay": [(-1, False), (0, True), (1000, True), (1001, False), ("500", False)],
    "airgap": [(-1, False), (0, True), (100, True), (101, False), (1.0, False)],
    "airgap_speed": [(0, False), (1, True), (1000, True), (1001, False)],
    "retract_speed": [(0, False), (1, True), (100, True), (101, False)],
    "fastwash": [(-1, False), (0, True), (2, False), ("1", False)],
    "low_volume": [(-1, False), (1, True), (2, False), ({"$none": 1}, False)],
}


class Harness(cm.BaseB):
    id = "C13"
    rule = (
        "4 labware (plates 2x2, 3x2, 8x3, trough 3 virtual rows x 2) x all well sequences of length 1..3 over 5 wells "
        "(3 of one column, 2 of another; repeats, any order) x all tip sequences of the same length over {1,2,4,5,8,Tip.T2,Tip.T3,Tip.T4,Tip.Any} x volumes {scalar, pairwise distinct list, tuple} x {evo_aspirate, evo_dispense} through the "
        "tracked EvoWorklist methods and the bare command functions; length mismatches; volume classes (> max_volume, "
        "negative, NaN, wrong length); grid {0,1,67,68,1.0} x site {0,1,128,129} x arm {0,1,2}; evo_wash: every "
        "parameter over {below range, bounds, above range, wrong type} with <= 2 (thorough 3) deviations from the "
        "default call.  Accepted commands are decoded by the EVOware rule and executed by the independent interpreter.  "
        "non-trivial = accepted with more than one well, or refused; distinct = distinct input"
    )

    def bounds(self, tier):
        return {"max_wells": 3, "labware": LABWARE, "wash_max_deviations": 2 if tier == "quick" else 3}

    def chunks(self, tier):
        out = []
        for lw in LABWARE:
            for n in ((1, 2, 3) if lw in ("p83", "t32", "p23") else (1, 2)) if tier == "quick" else ((1, 2, 3, 4) if lw == "p83" else (1, 2, 3)):
                ws = list(itertools.product(wells_of(lw), repeat=n))
                step = max(1, len(ws) // 8)
                for i in range(0, len(ws), step):
                    out.append({"k": "cmd", "lw": lw, "wells": ws[i : i + step]})
        out.append({"k": "args"})
        out.append({"k": "alt"})
        out.append({"k": "block"})
        for a in range(len(WASH_CLASSES)):
            out.append({"k": "wash", "a": a, "maxdev": 2 if tier == "quick" else 3})
        return out

    def cases(self, chunk):
        if chunk["k"] == "cmd":
            for ws in chunk["wells"]:
                n = len(ws)
                for tips in itertools.product(range(len(TIPSYMS)), repeat=n):
                    for vk in ("scalar", "list", "tuple", "zero") if n == 2 else ("scalar", "list", "zero") if n == 3 else ("scalar", "list"):
                        for op in ("evo_aspirate", "evo_dispense"):
                            yield {"k": "cmd", "lw": chunk["lw"], "wells": list(ws), "tips": list(tips), "vk": vk, "op": op, "via": "wl" if (n + tips[0]) % 2 == 0 or n == 3 else "fn"}
        elif chunk["k"] == "alt":
            # the same process addresses two labware with the same number of wells but another shape
            for a, b in (("p32", "p23"), ("p23", "p32"), ("t32", "p23"), ("p23", "t32")):
                for wa in wells_of(a)[:4]:
                    for wb in wells_of(b)[:4]:
                        for op in ("evo_aspirate", "evo_dispense"):
                            yield {"k": "alt", "first": [a, wa], "lw": b, "wells": [wb], "tips": [0], "vk": "scalar", "op": op, "via": "wl"}
        elif chunk["k"] == "block":
            # wells of one labware column handed over as a 2-D array (read column-major, like every array argument)
            for op in ("evo_aspirate", "evo_dispense"):
                for lw, block in (("p83", [["A01", "C01"], ["B01", "D01"]]), ("p83", [["A02", "B02", "C02"]]), ("p83", [["A01"], ["B01"], ["C01"]]), ("g42", [["A01", "C01"], ["B01", "D01"]]), ("p83", [["A03", "C03", "E03"], ["B03", "D03", "F03"]])):
                    for vk in ("scalar", "list", "2d"):
                        for layout in ("C", "F"):
                            yield {"k": "block", "op": op, "lw": lw, "block": block, "vk": vk, "layout": layout}
        elif chunk["k"] == "args":
            for op in ("evo_aspirate", "evo_dispense"):
                for via in ("wl", "fn"):
                    for nw, nt in ((1, 2), (2, 1), (2, 3), (3, 2), (1, 0), (0, 1)):
                        yield {"k": "arg", "op": op, "via": via, "what": "len", "nw": nw, "nt": nt}
                    for vols in ([10, 20, 30], [10], 50.0, 50.5, [10, 50.5], [50.5, 10], -1, [10, -1], {"$hex": "nan"}, [{"$hex": "nan"}, 10], "10", [10, "x"], {"$none": 1}, 0, [0, 10], 12.345, [1.005, 2.675]):
                        yield {"k": "arg", "op": op, "via": via, "what": "vol", "vols": vols}
                    for grid in (0, 1, 67, 68, 1.0, "1"):
                        for site in (0, 1, 128, 129):
                            for arm in (0, 1, 2):
                                yield {"k": "arg", "op": op, "via": via, "what": "pos", "grid": grid, "site": site, "arm": arm}
                    for lc in ("", "Water free dispense", "a;b", "x" * 40, "Water_\u03bcL \u2013 free", "Wasser \u00b5L"):
                        yield {"k": "arg", "op": op, "via": via, "what": "lc", "lc": lc}
                    # labware with more than 99 columns: column numbers of different length
                    for wells in (["A10", "B100"], ["A110", "B11"], ["A101", "B102"], ["A100", "B100"], ["A12", "B120"], ["A120", "B120"], ["A09", "B90"]):
                        yield {"k": "wide", "op": op, "via": via, "wells": wells}
                    # a worklist with a large max_volume: per-tip volumes that differ only in the last emitted digit
                    for wells in (["A01", "B01"], ["B01", "A01"]):
                        for tips in ([1, 2], [2, 1]):
                            for vols in ([1500.01, 1500.0], [1500.0, 1500.01], [4999.99, 5000.0]):
                                yield {"k": "big", "op": op, "via": via, "wells": wells, "tips": tips, "vols": vols}
        else:
            names = list(WASH_CLASSES)
            a = names[chunk["a"]]
            if chunk["a"] == 0:
                yield {"k": "wash", "dev": {}}
            for va in range(len(WASH_CLASSES[a])):
                yield {"k": "wash", "dev": {a: va}}
                for b in names[chunk["a"] + 1 :]:
                    for vb in range(len(WASH_CLASSES[b])):
                        yield {"k": "wash", "dev": {a: va, b: vb}}
                        if chunk["maxdev"] >= 3:
                            for c in names[names.index(b) + 1 :]:
                                for vc in (0, 1):
                                    yield {"k": "wash", "dev": {a: va, b: vb, c: vc}}

    def after_clear(self):
        # a caller has overwritten what the public helpers handed out for the geometries used here
        for R, C in ((2, 3), (2, 2), (3, 2), (8, 3), (1, 2), (4, 2), (2, 120)):
            cm.vandalize_helpers(R, C)

    def one(self, case):
        return getattr(self, "one_" + case["k"])(case)

    def one_big(self, case):
        op, wells, tips, vols = case["op"], case["wells"], case["tips"], case["vols"]
        lw = rt.Labware("L", 8, 3, min_volume=0, max_volume=1e6, initial_volumes=10000.0)
        before = lw.volumes
        wl = rt.EvoWorklist(max_volume=5000)
        try:
            if case["via"] == "wl":
                getattr(wl, op)(lw, wells, (30, 2), tips, vols, "LC")
                rec = wl[-1]
            else:
                rec = getattr(commands, op)(n_rows=8, n_columns=3, wells=wells, labware_position=(30, 2), volume=vols, liquid_class="LC", tips=tips, max_volume=5000)
        except Exception as e:
            ok = wells == sorted(wells) and tips == sorted(tips)
            return "big:refused", repr(case), ([("C13/expressible-call-rejected", f"{case}: {type(e).__name__}: {e}")] if ok else [])
        geo2 = Geo("L", "plate", 8, 3, 0, 1e6)
        init = {c: (Fraction(float(before[c])), {}) for c in geo2.real_wells()}
        robot = Robot("evo", {"L": geo2}, {"L": init}, wl_max=5000, site_map={(30, 1): "L"})
        p, issues = robot.feed(rec)
        V = [("C13/command-not-executable", f"{case} -> {rec!r}: {t} {d}") for t, d in issues if t not in ("negative", "below_min", "above_max")]
        sign = -1 if op == "evo_aspirate" else 1
        want = {geo2.real(w): sign * Fraction(v) for w, v in zip(wells, vols)}
        for c, w_ in want.items():
            if abs((robot.vol["L"][c] - init[c][0]) - w_) > Fraction(1, 1000):
                V.append(("C13/command-disagrees-with-tracking", f"{case}: command changes {well_id(*c)} by {float(robot.vol['L'][c] - init[c][0])}, the call asked for {float(w_)}: {rec!r}"))
        return "big:ok", repr(case), V

    def one_block(self, case):
        import numpy as np

        op, lwn, block = case["op"], case["lw"], case["block"]
        R, C = len(block), len(block[0])
        order = [block[r][c] for c in range(C) for r in range(R)]  # column-major reading
        n = len(order)
        tips = list(range(1, n + 1))
        vlist = [10.0 + 2.5 * i for i in range(n)]
        warr = np.array(block) if case["layout"] == "C" else np.asfortranarray(np.array(block))
        if case["vk"] == "scalar":
            vols, vlist = 10.0, [10.0] * n
        elif case["vk"] == "list":
            vols = list(vlist)
        else:
            vols = np.array([[vlist[c * R + r] for c in range(C)] for r in range(R)])
            if case["layout"] == "F":
                vols = np.asfortranarray(vols)
        lw, geo = build(lwn)
        exc, recs, before, after = self.execute(op, "wl", lw, geo, warr, tips, vols)
        if exc is not None:
            # the wells are distinct, of one column and ascending in the documented reading order
            return "block:refused", repr(case), ([("C13/expressible-call-rejected", f"{op}({lwn}, wells={block} as {case['layout']}-ordered 2-D array, tips={tips}, volumes {case['vk']}) raised {type(exc).__name__}: {exc}")] if order == sorted(order) and case["vk"] != "2d" else [])
        init = {c: (Fraction(float(before[c])), {}) for c in geo.real_wells()}
        robot = Robot("evo", {"L": geo}, {"L": init}, wl_max=MAXV, site_map={(30, 1): "L"})
        V = []
        for rec in recs:
            p, issues = robot.feed(rec)
            V += [("C13/command-not-executable", f"{case} -> {rec!r}: {t} {d}") for t, d in issues if t not in ("negative", "below_min", "above_max")]
        sign = -1 if op == "evo_aspirate" else 1
        want = {c: Fraction(0) for c in init}
        for w, v in zip(order, vlist):
            want[geo.real(w)] += sign * Fraction(v)
        cmd = {c: robot.vol["L"][c] - init[c][0] for c in init}
        trk = {c: Fraction(float(after[c])) - Fraction(float(before[c])) for c in init}
        bad = {well_id(*c): (float(cmd[c]), float(trk[c]), float(want[c])) for c in init if abs(cmd[c] - trk[c]) > Fraction(5, 1000) or abs(trk[c] - want[c]) > Fraction(5, 1000)}
        if bad:
            V.append(("C13/command-disagrees-with-tracking", f"{op}({lwn}, wells={block} as {case['layout']}-ordered 2-D array, tips={tips}, volumes {case['vk']} {vlist}) -> {recs}: (command, tracked, requested) change per well {bad}"))
        return "block:ok", repr(case), V

    def one_wide(self, case):
        op, wells = case["op"], case["wells"]
        lw = rt.Labware("L", 2, 120, min_volume=0, max_volume=5000, initial_volumes=500.0)
        geo = Geo("L", "plate", 2, 120, 0, 5000)
        exc, recs, before, after = self.execute(op, case["via"], lw, geo, wells, [1, 2], [10.0, 12.5])
        one_column = len({int(w[1:]) for w in wells}) == 1
        if exc is not None:
            return "wide:refused", repr(case), ([("C13/expressible-call-rejected", f"{op}(wells={wells}) on a 2 x 120 plate raised {type(exc).__name__}: {exc}")] if one_column else [])
        if not one_column:
            return "wide:accepted", repr(case), [("C13/inexpressible-call-accepted", f"{op}(wells={wells}) on a 2 x 120 plate names wells of several columns and was accepted: {recs}")]
        init = {c: (Fraction(float(before[c])), {}) for c in geo.real_wells()}
        robot = Robot("evo", {"L": geo}, {"L": init}, wl_max=MAXV, site_map={(30, 1): "L"})
        p, issues = robot.feed(recs[0])
        V = [("C13/command-not-executable", f"{case} -> {recs[0]!r}: {t} {d}") for t, d in issues if t not in ("negative", "below_min", "above_max")]
        sign = -1 if op == "evo_aspirate" else 1
        for w, v in zip(wells, [10.0, 12.5]):
            c = geo.real(w)
            if abs((robot.vol["L"][c] - init[c][0]) - sign * Fraction(v)) > Fraction(5, 1000):
                V.append(("C13/command-disagrees-with-tracking", f"{op}(wells={wells}) on a 2 x 120 plate: the command changes {w} by {float(robot.vol['L'][c] - init[c][0])}"))
        return "wide:ok", repr(case), V

    def one_alt(self, case):
        cm.clear_caches()
        a, wa = case["first"]
        lw, geo = build(a)
        self.execute(case["op"], "wl", lw, geo, [wa], [1], 10.0)
        o, key, V = self.one_cmd(dict(case, k="cmd"))
        return "alt:" + o, key, [(c + "/order-dependent", f"after a command on {a}.{wa}: {d}") for c, d in V]

    # -------------------------------------------------------------- commands vs tracking
    def execute(self, op, via, lw, geo, wells, tips, vols, lc="LC", pos=(30, 2), arm=0):
        """returns (exception or None, record or None, volumes before, volumes after)"""
        before = lw.volumes
        wl = rt.EvoWorklist(max_volume=MAXV)
        try:
            if via == "wl":
                getattr(wl, op)(lw, wells, pos, tips, vols, lc, arm=arm)
                recs = list(wl)
            else:
                fn = getattr(commands, op)
                recs = [fn(n_rows=lw.n_rows, n_columns=lw.n_columns, wells=wells, labware_position=pos, volume=vols, liquid_class=lc, tips=tips, arm=arm, max_volume=MAXV)]
        except Exception as e:
            return e, list(wl), before, lw.volumes
        return None, recs, before, lw.volumes

    def one_cmd(self, case):
        lwn, wells, op, via = case["lw"], case["wells"], case["op"], case["via"]
        tips_raw = [TIPSYMS[i] for i in case["tips"]]
        tips = dec(tips_raw)
        n = len(wells)
        vlist = [10.0 + 2.5 * i for i in range(n)]
        vols = 10.0 if case["vk"] == "scalar" else vlist if case["vk"] == "list" else tuple(vlist)
        if case["vk"] == "scalar":
            vlist = [10.0] * n
        if case["vk"] == "zero":
            vlist[(n - 1) // 2 if n == 3 else 0] = 0.0  # one tip is selected but moves nothing
            vols = list(vlist)
        lw, geo = build(lwn)
        exc, recs, before, after = self.execute(op, via, lw, geo, wells, tips, vols)
        tnums = [tipnum(t) for t in tips_raw]
        cells = [geo.real(w) for w in wells]
        cols = {int(w[1:]) for w in wells}
        # what the call asks for: well i is served by tip i with volume i
        expressible = (
            len(cols) == 1
            and -1 not in tnums
            and len(set(tnums)) == n
            and len(set(wells)) == n
            and case["vk"] != "tuple"
        )
        if expressible and case["vk"] in ("list", "zero") and n > 1:
            order_w = sorted(range(n), key=lambda i: wells[i])
            order_t = sorted(range(n), key=lambda i: tnums[i])
            expressible = order_w == order_t == list(range(n)) or (order_w == order_t)
            strictly_sorted = order_w == list(range(n)) and order_t == list(range(n))
        else:
            strictly_sorted = True
        V = []
        if exc is not None:
            if recs:
                V.append(("C13/record-despite-rejection", f"{op} raised {type(exc).__name__} but appended {recs}"))
            if expressible and strictly_sorted:
                V.append(("C13/expressible-call-rejected", f"{op}({lwn}, wells={wells}, tips={tips_raw}, volumes={vols!r}) raised {type(exc).__name__}: {exc}"))
            return f"{op}:{via}:refused", repr(case), V
        if len(recs) != 1:
            return f"{op}:{via}:nrec", repr(case), [("C13/record-count", f"{len(recs)} records")]
        # decode and execute the command independently
        init = {c: (Fraction(float(before[c])), {}) for c in geo.real_wells()}
        robot = Robot("evo", {"L": geo}, {"L": init}, wl_max=MAXV, site_map={(30, 1): "L"})
        p, issues = robot.feed(recs[0])
        for tag, d in issues:
            if tag in ("negative", "below_min", "above_max"):
                continue
            V.append(("C13/command-not-executable", f"{op}({lwn}, {wells}, tips={tips_raw}, {vols!r}) -> {recs[0]!r}: {tag} {d}"))
        if p is None or V:
            return f"{op}:{via}:bad", repr(case), V
        if p["kind"] != ("Aspirate" if op == "evo_aspirate" else "Dispense") or p["liquid_class"] != "LC" or p["arm"] != 0 or (p["grid"], p["site"]) != (30, 1) or p["spacing"] != 1:
            V.append(("C13/arguments", f"{recs[0]!r}"))
        wantmask = 0
        for t in tnums:
            wantmask |= 1 << (t - 1)
        if p["tip_mask"] != wantmask:
            V.append(("C13/arguments", f"{op}({lwn}, wells={wells}, tips={tips_raw}): tip mask {p['tip_mask']}, given tips select {wantmask}"))
        # per-well change according to the command ...
        sign = -1 if op == "evo_aspirate" else 1
        cmd_delta = {c: robot.vol["L"][c] - init[c][0] for c in init}
        if via == "wl":
            track_delta = {c: Fraction(float(after[c])) - Fraction(float(before[c])) for c in init}
        else:
            track_delta = {c: Fraction(0) for c in init}
            for c, v in zip(cells, vlist):
                track_delta[c] += sign * Fraction(v)
        bad = {well_id(*c): (float(cmd_delta[c]), float(track_delta[c])) for c in init if abs(cmd_delta[c] - track_delta[c]) > Fraction(5, 1000)}
        if bad:
            V.append(("C13/command-disagrees-with-tracking", f"{op}({lwn}, wells={wells}, tips={tips_raw}, volumes={vols!r}) -> {recs[0]!r}: (command, tracked) change per well {bad}"))
        return f"{op}:{via}:ok", repr(case), V

    def one_arg(self, case):
        op, via, what = case["op"], case["via"], case["what"]
        lw, geo = build("p83")
        wells, tips, vols, lc, pos, arm = ["A01", "B01"], [1, 2], 10.0, "LC", (30, 2), 0
        must_reject = False
        if what == "len":
            wells = ["A01", "B01", "C01"][: case["nw"]]
            tips = [1, 2, 3][: case["nt"]]
            must_reject = True
        elif what == "vol":
            vols = dec(case["vols"])
            if isinstance(case["vols"], dict) and "$none" in case["vols"]:
                vols = None
            flat = vols if isinstance(vols, list) else [vols]
            must_reject = (
                any(not isinstance(v, (int, float)) or v != v or v < 0 or v > MAXV for v in flat)
                or (isinstance(vols, list) and len(vols) != 2)
            )
        elif what == "pos":
            pos, arm = (case["grid"], case["site"]), case["arm"]
            must_reject = not (isinstance(case["grid"], int) and 1 <= case["grid"] <= 67 and 1 <= case["site"] <= 128 and arm in (0, 1))
        else:
            lc = case["lc"]
            must_reject = ";" in lc
        exc, recs, before, after = self.execute(op, via, lw, geo, wells, tips, vols, lc=lc, pos=pos, arm=arm)
        V = []
        try:
            lc.encode("latin-1")
            free = False
        except UnicodeEncodeError:
            # a liquid class that the file format cannot carry: refusing it is fine, naming another class is not
            free = True
            if exc is None and f',"{lc}",' not in recs[-1]:
                return f"arg:{what}:accepted", repr(case), [("C13/arguments", f"{op} via {via}: liquid class {lc!r} -> {recs[-1]!r}")]
            if exc is None:
                return f"arg:{what}:ok", repr(case), []
        if exc is not None:
            if recs:
                V.append(("C13/record-despite-rejection", f"{op} raised but appended {recs}"))
            if not must_reject and not free:
                V.append(("C13/expressible-call-rejected", f"{op} {case}: {type(exc).__name__}: {exc}"))
            return f"arg:{what}:refused", repr(case), V
        if must_reject:
            return f"arg:{what}:accepted", repr(case), [("C13/invalid-argument-accepted", f"{op} via {via} {case} -> {recs}")]
        try:
            p = gwl.parse(recs[-1])
        except gwl.ParseError as e:
            return f"arg:{what}:unparsable", repr(case), [("C13/command-not-executable", f"{recs[-1]!r}: {e}")]
        if what == "pos" and ((p["grid"], p["site"], p["arm"]) != (pos[0], pos[1] - 1, arm)):
            V.append(("C13/arguments", f"grid/site/arm {pos} {arm} -> {recs[-1]!r}"))
        if what == "lc" and p["liquid_class"] != lc:
            V.append(("C13/arguments", f"liquid class {lc!r} -> {recs[-1]!r}"))
        if what == "vol":
            flat = vols if isinstance(vols, list) else [vols, vols]
            got = [p["slots"][0], p["slots"][1]]
            if any(g is None and v != 0 for g, v in zip(got, flat)) or any(g is not None and abs(g - Fraction(v)) > Fraction(5, 1000) + Fraction(1, 10**9) for g, v in zip(got, flat)):
                V.append(("C13/arguments", f"volumes {vols!r} -> slots {p['slots_raw'][:3]}"))
            if via == "wl":
                d = [float(before[c] - after[c]) if op == "evo_aspirate" else float(after[c] - before[c]) for c in ((0, 0), (1, 0))]
                if any(abs(a - (float(g) if g is not None else 0.0)) > 0.005 + 1e-9 for a, g in zip(d, got)):
                    V.append(("C13/command-disagrees-with-tracking", f"volumes {vols!r}: tracked {d}, command {p['slots_raw'][:2]}"))
        return f"arg:{what}:ok", repr(case), V

    # -------------------------------------------------------------- evo_wash
    def one_wash(self, case):
        kw = dict(WASH_DEFAULT)
        valid = True
        for name, vi in case["dev"].items():
            val, ok = WASH_CLASSES[name][vi]
            kw[name] = val
            valid = valid and ok
        args = {k: (None if isinstance(v, dict) and "$none" in v else dec(v)) for k, v in kw.items()}
        for loc in ("waste_location", "cleaner_location"):
            args[loc] = tuple(args[loc])
        wl = rt.EvoWorklist()
        try:
            wl.evo_wash(**args)
        except Exception as e:
            V = []
            if len(wl):
                V.append(("C13/record-despite-rejection", f"evo_wash raised but appended {list(wl)}"))
            if valid:
                V.append(("C13/valid-wash-rejected", f"{case['dev']}: {type(e).__name__}: {e}"))
            return "wash:refused", repr(case), V
        if not valid:
            return "wash:accepted", repr(case), [("C13/wash-out-of-range-accepted", f"evo_wash({ {k: kw[k] for k in case['dev']} }) -> {list(wl)}")]
        V = []
        try:
            p = gwl.parse(wl[-1])
        except gwl.ParseError as e:
            return "wash:unparsable", repr(case), [("C13/wash-unparsable", f"{wl[-1]!r}: {e}")]
        mask = 0
        tips_raw = kw["tips"]
        if isinstance(tips_raw, dict):
            tips_raw = tips_raw.get("$iter") or tips_raw.get("$tuple")
        for t in tips_raw:
            mask |= 1 << (tipnum(t) - 1)
        exp = {
            "tip_mask": mask,
            "waste_grid": kw["waste_location"][0], "waste_site": kw["waste_location"][1] - 1,
            "cleaner_grid": kw["cleaner_location"][0], "cleaner_site": kw["cleaner_location"][1] - 1,
            "waste_delay": kw["waste_delay"], "cleaner_delay": kw["cleaner_delay"], "airgap": kw["airgap"],
            "airgap_speed": kw["airgap_speed"], "retract_speed": kw["retract_speed"], "fastwash": kw["fastwash"],
            "low_volume": kw["low_volume"], "atfreq": 1000, "arm": kw["arm"],
        }
        for k, v in exp.items():
            if p[k] != v:
                V.append(("C13/wash-arguments", f"{k}: emitted {p[k]}, given {v}: {wl[-1]!r}"))
        for k in ("waste_vol", "cleaner_vol"):
            if abs(p[k] - Fraction(kw[k])) > Fraction(5, 100) + Fraction(1, 10**9) or len(p[k + "_s"].split(".")[-1]) > 1 and "." in p[k + "_s"]:
                V.append(("C13/wash-arguments", f"{k}: emitted {p[k + '_s']!r}, given {kw[k]}"))
        return "wash:ok", repr(case), V
