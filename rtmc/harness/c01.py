"""C01 - the emitted worklist reproduces the tracked labware state when executed."""
import itertools
from fractions import Fraction

from ..ref.numbering import flat_f
from ..ref.robot import Robot
from ..world import DEVICE, exec_event, initial_contents, make_world, ref_vols, ref_wells
from . import common as cm

WASH = [1, 2, 3, 4, "flush", "reuse"]
PART = ["auto", "source", "destination"]


def T(src, sw, dst, dw, v, **kw):
    return ["transfer", "w", src, sw, dst, dw, v, kw]


def A(lw, wells, v, **kw):
    return ["aspirate", "w", lw, wells, v, kw]


def D(lw, wells, v, **kw):
    return ["dispense", "w", lw, wells, v, kw]


def R(src, col, dst, dw, v, **kw):
    kw = dict(kw, volume=v)
    return ["distribute", "w", src, col, dst, dw, kw]


def core_W1():
    return [
        T("P", ["A01"], "Q", ["A01"], [30]),
        T("P", ["A01", "B01"], "Q", ["A01", "B01"], [30, 7.5]),
        T("P", ["B02", "A01"], "Q", ["C01", "C02"], [70, 7.5]),
        T("T", ["A01", "B01", "C01"], "Q", ["A01", "B01", "C01"], [120, 30, 7.5]),
        T("T", ["B02"], "Q", ["A02"], [70]),
        T("T", ["A02", "B01"], "P", ["A03", "B03"], [7.5, 30]),
        T("Q", ["A01"], "P", ["B03"], [30]),
        T("Q", ["A01"], "Q", ["A02"], [7.5]),
        T("Q", ["A01"], "Q", ["A01"], [7.5]),
        T("Q", ["B01"], "T", ["C02"], [30]),
        T("P", ["A01", "A02"], "P", ["B01", "B01"], [30, 30]),
        T("P", ["A01", "A01"], "Q", ["A01", "B02"], [7.5, 30]),
        A("P", ["A01", "B01"], [7.5, 30]),
        A("T", ["A01", "B01"], 30),
        D("Q", ["A01", "A02"], 30),
        D("P", "B03", 7.5),
        R("T", 0, "Q", ["A01", "B01", "A02"], 30),
        R("T", 1, "P", ["A01", "B03"], 7.5),
        R("T", 0, "Q", ["C02"], 30, multi_disp=3),
    ]


def masked_events():
    """volumes handed over as numpy.ma masked arrays: whatever a masked entry means, the records and the tracking agree"""
    return [
        A("P", ["A01", "B01"], {"$ma": [[30, 7.5], [False, True]]}),
        A("T", ["A01", "B02", "C01"], {"$ma": [[30, 70, 7.5], [True, False, False]]}),
        D("Q", ["A01", "B01", "C02"], {"$ma": [[30, 7.5, 70], [False, True, False]]}),
        D("Q", ["A02"], {"$ma": [[30], [True]]}),
        T("P", ["A01", "B01"], "Q", ["A01", "B02"], {"$ma": [[30, 7.5], [False, True]]}),
        R("T", 0, "Q", ["C01", "C02"], {"$npf": 7.5}),
        R("T", 1, "P", ["A01"], {"$nps": ["float32", 2.5]}),
    ]


def full_W1(tier):
    ev = masked_events()
    # every wash scheme x partition mode on collision-rich transfers
    bases = [
        ("P", ["B02", "A01", "A02"], "Q", ["C01", "C02", "A01"], [70, 7.5, 30]),
        ("T", ["C01", "A01", "B02"], "Q", ["B01", "A01", "B02"], [120, 30, 7.5]),
        ("Q", ["A01", "B01"], "T", ["B02", "A01"], [7.5, 30]),
        ("T", ["A01"], "T", ["B02"], [70]),
    ]
    for b in bases:
        for ws in WASH:
            for pb in PART:
                ev.append(T(*b, wash_scheme=ws, partition_by=pb))
    # volumes incl. 0 and values far above max_volume
    for v in [0, 7.5, 30, 70, 120, 1000]:
        ev.append(T("T", ["A01"], "Q", ["A02"], [v]))
        ev.append(T("P", "A01", "Q", "B01", v))
        ev.append(T("T", ["A01", "B01"], "T", ["A02", "C02"], [v, 7.5]))
        ev.append(A("T", "C01", v))
        ev.append(D("Q", ["C01", "C02"], [v, 7.5]))
    ev.append(T("T", ["A01", "B02"], "Q", ["A01", "A01"], [0, 0]))
    # argument shapes: scalar ids, 2-D slices with 2-D volumes, broadcast singletons, repeats, reversed
    ev += [
        T("P", {"$w2d": ["P", 0, 2, 0, 2]}, "Q", {"$w2d": ["Q", 0, 2, 0, 2]}, {"$a": [[7.5, 30], [0, 70]]}),
        T("P", {"$w2d": ["P", 0, 2, 1, 3]}, "Q", {"$w2d": ["Q", 1, 3, 0, 2]}, 7.5),
        T("P", {"$w2d": ["P", 0, 2, 0, 3]}, "Q", {"$w2d": ["Q", 0, 3, 0, 2]}, {"$a": [[1.5, 2.5, 3.5], [4.5, 5.5, 6.5]]}),
        T("T", "A01", "Q", {"$w2d": ["Q", 0, 3, 0, 2]}, 7.5),
        T("T", {"$w2d": ["T", 0, 3, 0, 1]}, "Q", {"$w2d": ["Q", 0, 3, 1, 2]}, [30, 70, 7.5]),
        T("T", {"$w2d": ["T", 0, 3, 0, 2]}, "P", {"$w2d": ["P", 0, 2, 0, 3]}, 7.5),
        T("P", ["A01", "B01", "A02"], "Q", "C02", [7.5, 30, 7.5]),
        T("P", ["A01", "B01", "A02"], "Q", ["C02"], 7.5),
        T("P", "A03", "Q", ["A01", "B01", "C01", "A02"], [7.5, 1.5, 30, 2.5]),
        T("P", ["B03", "A03", "B03", "A03"], "Q", ["A01", "A01", "B02", "C01"], [7.5, 30, 1.5, 2.5]),
        T("P", ["A01", "B01"], "P", ["B01", "A01"], [30, 7.5]),
        T("Q", ["A01", "B01"], "Q", ["B01", "C01"], [7.5, 7.5]),
        T("P", ["A01"], "Q", ["A01"], [30], label="named step"),
        T("P", ["A01", "B01"], "P", ["A02", "A01"], [120, 30]),  # A01 is split and refilled from B01 in between
        T("P", ["A02", "B02"], "P", ["B02", "A03"], [70, 70], partition_by="source"),
        T("Q", ["A01", "B01"], "Q", ["C01", "A01"], [70, 7.5]),
        T("P", "A01", "Q", "B01", [7.5, 30]),  # one source, one destination, several volumes
        T("T", "B01", "P", ["A03"], [7.5, 7.5, 30]),
        T("T", ["A01", "B01", "C01"], "Q", ["A01", "B01", "C01"], [120, 70, 120], label="lvh"),
        T("P", ["A01"], "Q", ["A01"], [30], liquid_class="Water", tip=3, rack_id="id1", rack_type="t96"),
        A("P", {"$w2d": ["P", 0, 2, 0, 2]}, {"$a": [[1.5, 2.5], [3.5, 4.5]]}),
        A("P", {"$w2d": ["P", 0, 2, 0, 3]}, 7.5),
        A("P", ["B03", "A01", "B03"], [1.5, 2.5, 3.5]),
        A("T", ["A01", "B01", "C01", "A02"], [1.5, 2.5, 3.5, 4.5]),
        A("T", {"$w2d": ["T", 0, 3, 0, 2]}, 7.5),
        A("P", "B02", 30, label="asp"),
        D("Q", {"$w2d": ["Q", 0, 3, 0, 2]}, {"$a": [[1.5, 2.5], [3.5, 4.5], [5.5, 6.5]]}),
        D("T", ["A01", "C01", "B02"], [1.5, 2.5, 3.5]),
        D("Q", ["B02", "A01", "B02"], 7.5),
        D("Q", "A01", 30, compositions=[{"x": 1.0}]),
    ]
    # argument types: tuples, numpy scalars, numpy integer column index, integer-typed arrays
    ev += [
        T("P", {"$tuple": ["A01", "B01"]}, "Q", {"$tuple": ["A01", "B02"]}, {"$tuple": [7.5, 30]}),
        T("T", ["A01", "B02"], "Q", ["A01", "C02"], {"$a": [30, 70]}),
        T("P", "A01", "Q", "B01", {"$npf": 7.5}),
        T("P", ["A01", "B01"], "Q", ["A01", "B01"], {"$npi": 30}),
        A("P", {"$tuple": ["A01", "B03"]}, {"$npf": 7.5}),
        D("Q", {"$tuple": ["C01", "C02"]}, {"$tuple": [1.5, 2.5]}),
        D("Q", ["A01", "B01"], {"$a": [30, 70]}),
        ["distribute", "w", "T", {"$npi": 1}, "Q", ["A01", "B02"], {"volume": {"$npf": 7.5}}],
        ["distribute", "w", "T", 0, "Q", {"$tuple": ["C01", "A02"]}, {"volume": 30, "multi_disp": {"$npi": 3}}],
    ]
    # distribute to every non-empty subset of Q's six wells, holes and all
    qw = ["A01", "B01", "C01", "A02", "B02", "C02"]
    subsets = [list(c) for n in range(1, 7) for c in itertools.combinations(qw, n)]
    if tier == "quick":
        subsets = [s for s in subsets if len(s) in (1, 2, 5, 6) or s[0] == "B01"]
    for s in subsets:
        ev.append(R("T", 0, "Q", s, 7.5))
    for s in [["A01", "B02"], ["C02", "A01", "B01"], ["B01"]]:
        ev.append(R("T", 1, "Q", s, 30, multi_disp=3))
        ev.append(R("T", 0, "Q", list(reversed(s)), 7.5, multi_disp=12, direction="right_to_left", label="dist"))
    ev += [
        R("T", 1, "P", ["B01", "A03"], 30),
        R("T", 0, "P", {"$w2d": ["P", 0, 2, 1, 3]}, 7.5),
        R("T", 0, "T", ["A02"], 30),
        R("T", 1, "T", ["B01"], 7.5),
        R("T", 0, "Q", ["A01"], 50),
        R("T", 0, "Q", "B02", 7.5, liquid_class="Water", diti_reuse=2),
    ]
    return ev


def core_W2():
    return [
        T("A", ["A01"], "B", ["A01"], [30]),
        T("A", ["A01", "A02"], "B", ["B01", "A01"], [7.5, 30]),
        T("B", ["B01"], "A", ["A02"], [30]),
        T("S", ["A01"], "A", ["A02"], [70]),
        T("S", ["A01", "A01"], "B", ["A01", "B01"], [7.5, 30]),
        T("A", ["A02"], "S", ["A01"], [7.5]),
        A("B", ["B01"], 7.5),
        D("A", ["A01", "A02"], [7.5, 30]),
        R("S", 0, "B", ["A01", "B01"], 7.5),
        R("S", 0, "A", ["A02"], 30),
    ]


def full_W2(tier):
    ev = []
    for ws in WASH:
        for pb in PART:
            ev.append(T("A", ["A02", "A01"], "B", ["A01", "B01"], [70, 7.5], wash_scheme=ws, partition_by=pb))
            ev.append(T("S", ["A01", "A01"], "A", ["A02", "A01"], [7.5, 70], wash_scheme=ws, partition_by=pb))
    ev += [
        T("A", {"$w2d": ["A", 0, 1, 0, 2]}, "B", {"$w2d": ["B", 0, 2, 0, 1]}, [7.5, 1.5]),
        T("S", "A01", "B", {"$w2d": ["B", 0, 2, 0, 1]}, 7.5),
        T("S", "A01", "S", "A01", 30),
        T("B", "B01", "B", "A01", 7.5),
        A("A", {"$w2d": ["A", 0, 1, 0, 2]}, {"$a": [[1.5, 2.5]]}),
        A("S", "A01", 120),
        D("B", {"$w2d": ["B", 0, 2, 0, 1]}, {"$a": [[1.5], [2.5]]}),
        R("S", 0, "A", ["A01", "A02"], 7.5, multi_disp=3),
        R("S", 0, "B", ["B01"], 30),
        R("S", 0, "A", ["A02", "A01"], 1.5),
    ]
    return ev


def core_W3():
    return [
        T("P", ["A01"], "Q", ["A01"], [30]),
        T("P", ["A01", "B01"], "Q", ["A02", "B01"], [7.5, 30]),
        T("T", ["A01", "B01"], "Q", ["B02", "C02"], [30, 7.5]),
        T("T", ["A02"], "Q", ["A01"], [7.5]),
        T("Q", ["C01", "A02"], "P", ["A01", "B02"], [7.5, 7.5]),
        T("Q", ["C01"], "T", ["A02"], [30]),
        A("P", ["A02", "B02"], [70, 7.5]),
        A("Q", ["A02"], 30),
        D("P", ["A01"], 7.5),
        R("T", 0, "Q", ["A01", "B02"], 7.5),
        R("T", 1, "Q", ["C02"], 7.5),
    ]


def full_W3(tier):
    ev = []
    for pb in PART:
        ev.append(T("P", ["B01", "A01", "A03"], "Q", ["A01", "A01", "C02"], [70, 7.5, 30], partition_by=pb))
        ev.append(T("T", ["A01", "B01", "C01"], "Q", ["A01", "B02", "C02"], [30, 7.5, 30], partition_by=pb))
    ev += [
        T("Q", {"$w2d": ["Q", 0, 3, 0, 1]}, "P", {"$w2d": ["P", 0, 1, 0, 3]}, [0, 7.5, 30]),
        A("P", {"$w2d": ["P", 0, 2, 0, 3]}, 70),
        R("T", 0, "Q", ["A01", "B01", "C01", "A02", "B02", "C02"], 7.5),
        R("T", 0, "P", ["A01", "B01"], 7.5, multi_disp=4),
    ]
    return ev


def core_W4():
    rows8 = ["A", "B", "C", "D", "E", "F", "G", "H"]
    return [
        T("P", ["A01", "H12", "D10", "H01"], "Q", ["A01", "P24", "J10", "P01"], [7.5, 30, 70, 120]),
        T("T", [f"{r}01" for r in rows8], "P", [f"{r}10" for r in rows8], 30),
        T("T", ["H03", "A02"], "Q", ["P24", "A13"], [70, 7.5]),
        T("Q", ["P24", "J10"], "P", ["H12", "A11"], [7.5, 7.5]),
        T("P", {"$w2d": ["P", 0, 8, 11, 12]}, "Q", {"$w2d": ["Q", 8, 16, 23, 24]}, 7.5),
        R("T", 2, "Q", ["A01", "P24", "B13", "P23", "A24"], 7.5),
        R("T", 1, "P", {"$w2d": ["P", 0, 8, 9, 12]}, 7.5),
        A("P", {"$w2d": ["P", 0, 8, 10, 12]}, 7.5),
        D("Q", ["P24", "A24", "P01", "J10"], [1.5, 2.5, 3.5, 4.5]),
    ]


def full_W4(tier):
    ev = []
    for pb in PART:
        ev.append(T("P", ["H12", "A12", "D01", "H10"], "Q", ["P01", "A24", "P24", "K11"], [120, 7.5, 70, 30], partition_by=pb))
        ev.append(T("T", ["H01", "A01", "D02", "B03"], "Q", ["A10", "P10", "H09", "I24"], [120, 30, 7.5, 70], partition_by=pb, wash_scheme="flush"))
    ev += [
        T("T", "E03", "Q", {"$w2d": ["Q", 0, 16, 9, 10]}, 7.5),
        T("P", {"$w2d": ["P", 0, 8, 0, 12]}, "Q", {"$w2d": ["Q", 8, 16, 12, 24]}, 1.5),
        R("T", 0, "Q", {"$w2d": ["Q", 0, 16, 0, 24]}, 7.5, multi_disp=6),
        R("T", 1, "Q", {"$w2d": ["Q", 1, 16, 22, 24]}, 30),
        R("T", 2, "P", ["H12"], 50),
        R("T", 0, "T", ["A03"], 30),
        A("T", ["A01", "H01", "D02", "H03"], [1.5, 2.5, 3.5, 4.5]),
        D("P", {"$w2d": ["P", 6, 8, 8, 12]}, {"$a": [[1.5, 2.5, 3.5, 4.5], [5.5, 6.5, 7.5, 8.5]]}),
    ]
    return ev


def core_W5():
    return [
        T("P", ["A100", "B101", "A10", "B01"], "Q", ["Z02", "A01", "Y01", "Z01"], [7.5, 30, 70, 120]),
        T("T", ["Z01", "A01", "M01"], "P", ["B100", "A101", "A99"], [30, 7.5, 70]),
        T("U", "A01", "Q", ["Z01", "A02"], [7.5, 30]),
        T("Q", ["Z02"], "U", ["A01"], [7.5]),
        R("T", 0, "Q", ["A01", "Z02", "Y02", "M01"], 7.5),
        R("T", 0, "P", {"$w2d": ["P", 0, 2, 98, 101]}, 7.5),
        A("P", {"$w2d": ["P", 0, 2, 99, 101]}, 7.5),
        D("Q", ["Z01", "Z02", "A02"], [1.5, 2.5, 3.5]),
    ]


def full_W5(tier):
    ev = []
    for pb in PART:
        ev.append(T("P", ["B101", "A100", "A09", "B10"], "Q", ["Z01", "A02", "Z02", "M01"], [120, 7.5, 70, 30], partition_by=pb))
        ev.append(T("T", ["Z01", "A01", "M01"], "Q", ["A01", "Z01", "N02"], [120, 30, 7.5], partition_by=pb, wash_scheme="reuse"))
    ev += [
        T("T", "Z01", "Q", {"$w2d": ["Q", 0, 26, 1, 2]}, 7.5),
        R("T", 0, "Q", {"$w2d": ["Q", 0, 26, 0, 2]}, 7.5, multi_disp=6),
        R("T", 0, "U", ["A01"], 30),
        R("T", 0, "P", ["A100", "A101", "B99"], 7.5),
        A("T", ["A01", "Z01"], [1.5, 2.5]),
        D("P", {"$w2d": ["P", 0, 2, 97, 101]}, {"$a": [[1.5, 2.5, 3.5, 4.5], [5.5, 6.5, 7.5, 8.5]]}),
        D("U", "A01", 7.5),
    ]
    return ev


def inexact_events():
    third = {"$hex": (1 / 3).hex()}
    return [
        T("P", ["A01"], "Q", ["A01"], [0.1]),
        T("P", ["A01", "B01"], "Q", ["A01", "B01"], [third, 2.675]),
        T("T", ["A01", "B01"], "Q", ["A01", "A02"], [120.005, 0.125]),
        T("P", ["A02"], "Q", ["A01"], [0.005]),
        T("T", ["A01"], "Q", ["B02"], [70.33]),
        A("P", ["A01", "B01"], [0.1, 2.675]),
        D("Q", ["A01"], 0.125),
        R("T", 0, "Q", ["A01", "B01"], 0.1),
        R("T", 1, "Q", ["A01"], 33.335),
        T("Q", ["A01"], "P", ["A03"], [0.045]),
        T("P", ["B02"], "Q", ["B02"], [12.348]),
        T("P", ["A03", "B03"], "Q", ["C01", "C02"], [{"$hex": (200 / 3).hex()}, 0.009]),
        A("P", ["A02"], 12.348),
        D("Q", ["C02"], {"$hex": (200 / 3).hex()}),
    ]


SETS = {"W1": (cm.W1, core_W1, full_W1), "W2": (cm.W2, core_W2, full_W2), "W3": (cm.W3, core_W3, full_W3), "W4": (cm.W4, core_W4, full_W4), "W5": (cm.W5, core_W5, full_W5)}


class Harness(cm.BaseA):
    id = "C01"
    fresh_quick = True  # every transition is re-executed from a fresh world (hidden state, aliasing)
    rule = (
        "every sequence of <= depth core operations followed by any one operation of the full alphabet, from "
        "every configuration (3 labware sets x 2 devices, plus non-dyadic rounding configurations); a case is "
        "non-trivial when the operation succeeded and appended records; distinct = distinct canonical "
        "(Labware + interpreter) post-state"
    )
    assumptions = [
        "the independent interpreter rtmc/ref/robot.py reads the R source range with virtual rows on both devices (pinned by the repository's test_oo_example_1)",
        "bare dispenses add liquid of unknown origin; wells containing it are excluded from the composition comparison only",
    ]

    def depth(self, tier):
        return 2 if tier == "quick" else 4

    def bounds(self, tier):
        return {"depth": self.depth(tier), "worklist_max_volume": [50, 33.5], "sets": list(SETS)}

    def configs(self, tier):
        out = []
        for sname, (mk, _, _) in SETS.items():
            for cls in ("EvoWorklist", "FluentWorklist"):
                out.append({"set": sname, "labware": mk(), "worklists": {"w": {"cls": cls, "max_volume": 50, "auto_split": True}}})
        for cls in ("EvoWorklist", "FluentWorklist"):
            out.append({"set": "W1", "labware": cm.W1(), "worklists": {"w": {"cls": cls, "max_volume": 50, "auto_split": True, "diti_mode": True}}, "maxdepth": 1})
            out.append({"set": "W4", "labware": cm.W4(), "worklists": {"w": {"cls": cls, "max_volume": 950, "auto_split": True}}, "maxdepth": 1})
            out.append({"set": "W1", "labware": cm.W1(), "worklists": {"w": {"cls": cls, "max_volume": 33.5, "auto_split": True}}, "maxdepth": 1})
            out.append({"set": "W1", "inexact": True, "labware": cm.W1(), "worklists": {"w": {"cls": cls, "max_volume": 50, "auto_split": True}}, "maxdepth": 2})
            # every labware and the worklist are replaced by a copy of themselves before every operation
            out.append({"set": "W1", "clone": "deepcopy" if cls == "EvoWorklist" else "copy", "labware": cm.W1(), "worklists": {"w": {"cls": cls, "max_volume": 50, "auto_split": True}}, "maxdepth": 1})
        return out

    def init(self, config):
        W = make_world(config)
        dev = DEVICE[config["worklists"]["w"]["cls"]]
        W["robot"] = Robot(dev, cm.geos(config), {s["name"]: initial_contents(s) for s in config["labware"]})
        W["names"] = cm.origin_names(config, W)
        W["depth"] = 0
        return W

    def core_events(self, W, config):
        if W["depth"] >= config.get("maxdepth", 99):
            return []
        if config.get("inexact"):
            return inexact_events()
        return SETS[config["set"]][1]()

    def full_events(self, W, config):
        if config.get("inexact"):
            return inexact_events()
        return SETS[config["set"]][2](self.tier)

    tier = "quick"

    def canon(self, W, config):
        parts = []
        for n, lw in sorted(W["lw"].items()):
            parts.append(lw.volumes.astype(float).tobytes())
            for k in sorted(lw.composition):
                parts.append(k.encode())
                parts.append(lw.composition[k].tobytes())
        return b"|".join(parts) + W["robot"].canon().encode()

    # ------------------------------------------------------------------ the transition + oracle
    def step(self, W, ev, config):
        wl = W["wl"]["w"]
        exact = not config.get("inexact")
        if W["depth"] <= 1 and not config.get("inexact"):
            # the same process first emits the other device's variant of this operation on its own labware
            other = "FluentWorklist" if config["worklists"]["w"]["cls"] == "EvoWorklist" else "EvoWorklist"
            decoy = make_world({"labware": config["labware"], "worklists": {"w": dict(config["worklists"]["w"], cls=other)}})
            exec_event(decoy, ev)
        out, exc = exec_event(W, ev)
        wl = W["wl"]["w"]  # (a cloning configuration has replaced the object)
        recs = list(wl)
        del wl[:]
        W["depth"] += 1
        res = {"outcome": f"{ev[0]}:{out}", "violations": []}
        if out != "ok":
            res["expand"] = False
            return res
        V = res["violations"]
        robot = W["robot"]
        robot.tip = None  # tips are only paired inside one operation (DESIGN section 3)
        parsed = []
        for r in recs:
            p, issues = robot.feed(r)
            for tag, d in issues:
                if tag in ("unparsable",):
                    V.append(("C01/unparsable-record", f"{r!r}: {d}"))
                elif tag in ("unknown_rack", "bad_position", "R_source_not_single_column", "R_source_not_trough"):
                    V.append(("C01/addressing", f"{r!r}: {tag} {d}"))
                elif tag in ("negative", "below_min", "above_max"):
                    V.append(("C01/replay-leaves-limits", f"{r!r}: {tag} {d}"))
            if p is not None:
                parsed.append(p)
        if not V and '"$ma"' not in cm.jdump(ev):
            V += self.addressing(ev, parsed, config, exact)
        for suffix, d in cm.compare_robot(robot, W, config, W["names"], exact=exact, check_comp=exact):
            V.append((f"C01/{suffix}", d))
        for d in cm.callers_arrays_unchanged(W, config):
            V.append(("C01/volume", d))
        if any(p["kind"] in "ADR" for p in parsed):
            res["nontrivial"] = self.canon(W, config)
        res["outcome"] += ":records" if parsed else ":norecords"
        return res

    def addressing(self, ev, parsed, config, exact):
        """every record addresses the rack and well the operation named"""
        V = []
        op = ev[0]
        tol = Fraction(0) if exact else Fraction(5, 1000) + Fraction(1, 10**9)
        if op in ("aspirate", "dispense"):
            _, _, lw, wells, vols, kw = ev
            want = sorted((c, v) for c, v in cm.pairs_wells_vols(config, lw, wells, vols) if v > 0)
            kind = "A" if op == "aspirate" else "D"
            got = sorted((p["cell"], p["volume"]) for p in parsed if p["kind"] == kind)
            others = [p for p in parsed if p["kind"] in "ADR" and p["kind"] != kind]
            labels = {p["label"] for p in parsed if p["kind"] == kind}
            if others or (labels and labels != {lw}) or len(got) != len(want) or any(
                g[0] != w[0] or abs(g[1] - w[1]) > tol for g, w in zip(got, want)
            ):
                V.append(("C01/addressing", f"{op} {lw}: records {[(c, float(v)) for c, v in got]} vs requested {[(c, float(v)) for c, v in want]}"))
        elif op == "transfer":
            _, _, src, sw, dst, dw, vols, kw = ev
            want = cm.agg(((s, d), v) for s, d, v in cm.triples(config, src, sw, dst, dw, vols))
            flows = []
            n = 0
            i = 0
            seq = [p for p in parsed if p["kind"] in "ADR"]
            ok = True
            while i < len(seq):
                a = seq[i]
                d = seq[i + 1] if i + 1 < len(seq) else None
                if a["kind"] != "A" or d is None or d["kind"] != "D" or not d.get("paired"):
                    ok = False
                    break
                if a["label"] != src or d["label"] != dst:
                    ok = False
                    break
                flows.append(((a["cell"], d["cell"]), a["volume"]))
                n += 1
                i += 2
            got = cm.agg(flows)
            if not ok:
                V.append(("C01/addressing", f"transfer records are not A/D pairs on {src}->{dst}: {[p['raw'] for p in seq][:6]}"))
            elif any(abs(got.get(k, 0) - want.get(k, 0)) > tol * max(n, 1) for k in set(want) | set(got)):
                V.append(("C01/addressing", f"transfer flows {fmt(got)} vs requested {fmt(want)}"))
        elif op == "distribute":
            _, _, src, col, dst, dw, kw = ev
            col = ref_vols(col)
            kw = {k: ref_vols(v) for k, v in kw.items()}
            g = cm.geos(config)[dst]
            wantd = sorted(g.real(w) for w in flat_f(ref_wells(dw, config)))
            rs = [p for p in parsed if p["kind"] in "ADR"]
            if len(rs) != 1 or rs[0]["kind"] != "R":
                V.append(("C01/addressing", f"distribute emitted {[p['raw'] for p in rs]}"))
            else:
                p = rs[0]
                if (
                    p["src_label"] != src
                    or p["dst_label"] != dst
                    or p.get("src_cell") != (0, col)
                    or sorted(p.get("dst_cells", [])) != wantd
                    or abs(p["volume"] - Fraction(kw["volume"])) > (0 if exact else Fraction(1, 10**9))
                ):
                    V.append(("C01/addressing", f"distribute record {p['raw']!r} decodes to {p.get('src_cell')}->{p.get('dst_cells')} vs requested {(0, col)}->{wantd}"))
        return V


def fmt(d):
    return {str(k): float(v) for k, v in sorted(d.items())}
