"""C07 - transfers move each requested volume between the paired wells, one tip at a time."""
import itertools
import math
from fractions import Fraction

import numpy as np

from ..ref import gwl
from ..ref.numbering import Geo, flat_f, parse_id
from ..world import dec, rt
from . import common as cm

SRC = ["A01", "B01", "A02", "B02"]
DST = ["A01", "B01", "A02"]
# 45 and 70 need a different number of steps with the smaller volume having the larger first step;
# 148.25 splits into three steps just below max_volume (rounding of the step size matters)
VOLS = [0, 10, 45, 70, 120, 148.25]
MAXV = 50
TRIPLES = list(itertools.product(SRC, DST, VOLS))

GS = {"plate": Geo("S", "plate", 3, 2), "trough": Geo("S", "trough", 3, 2), "gtrough": Geo("S", "trough", 3, 2)}
GD = {"plate": Geo("D", "plate", 2, 3), "trough": Geo("D", "trough", 2, 3)}

OPTIONS = [
    ("wash", 2), ("wash", 3), ("wash", 4), ("wash", "flush"), ("wash", "reuse"),
    ("diti", True),
    ("diti", "numpy.bool_"),  # a truthy value that is not the True singleton (e.g. the result of arr.any())
    ("lc", "Water free"),
    ("tip", 3), ("tip", {"$tip": "T5"}), ("tip", [1, {"$tip": "T2"}]),
    ("rack_id", "RID-1"),
    ("rack_type", "96 Well"),
    ("label", "my label"),
    ("dst", "trough"),
]


def build(src_kind, dst_kind):
    if src_kind == "gtrough":
        s = rt.Labware("S", 1, 2, min_volume=0, max_volume=1e6, initial_volumes=[[10000, 20000]], virtual_rows=3)
        d = rt.Labware("D", 2, 3, min_volume=0, max_volume=1e6)
        return s, d
    if src_kind == "plate":
        s = rt.Labware("S", 3, 2, min_volume=0, max_volume=1e6, initial_volumes=10000)
    else:
        s = rt.Trough("S", 3, 2, min_volume=0, max_volume=1e6, initial_volumes=[10000, 20000])
    if dst_kind == "plate":
        d = rt.Labware("D", 2, 3, min_volume=0, max_volume=1e6)
    else:
        d = rt.Trough("D", 2, 3, min_volume=0, max_volume=1e6, initial_volumes=[0, 0, 0])
    return s, d


def ksteps(v):
    return 0 if v == 0 else max(1, math.ceil(Fraction(v) / MAXV))


class Harness(cm.BaseB):
    id = "C07"
    rule = (
        "all ordered lists of (source well, destination well, volume) triples of length <= 2 (thorough: <= 3) over "
        "4 x 3 x 6 = 72 triples with forced collisions (repeated wells, zero and split volumes, every permutation is "
        "a member) x partition_by in {auto, source, destination} x {Evo, Fluent} x source {plate, trough}; a fixed "
        "sub-family of 48 lists x every combination of <= 2 (thorough <= 3) deviations from the default call out of 14 "
        "options (wash schemes, DiTi mode, liquid class, tip as int/Tip/list, rack id/type, label, trough destination); "
        "2-D and broadcast argument shapes; every non-broadcastable length combination in (1..3)^3 and a negative "
        "entry at every index.  Decoded by the independent parser.  non-trivial = records emitted or call refused; "
        "distinct = distinct input"
    )

    def bounds(self, tier):
        return {"max_list_length": 2 if tier == "quick" else 3, "max_deviations": 2 if tier == "quick" else 3, "worklist_max_volume": MAXV}

    def chunks(self, tier):
        out = []
        n = 2 if tier == "quick" else 3
        for dev in ("EvoWorklist", "FluentWorklist"):
            out.append({"k": "lists", "dev": dev, "src": "gtrough", "len": 1, "first": None})
            for t0 in range(0, len(TRIPLES), 5):
                out.append({"k": "lists", "dev": dev, "src": "gtrough", "len": 2, "first": t0})
            for sk in ("plate", "trough"):
                out.append({"k": "lists", "dev": dev, "src": sk, "len": 1, "first": None})
                for t0 in range(len(TRIPLES)):
                    for ln in range(2, n + 1):
                        if ln == 3 and sk == "trough" and dev == "FluentWorklist" and False:
                            continue
                        out.append({"k": "lists", "dev": dev, "src": sk, "len": ln, "first": t0})
            out.append({"k": "dev", "dev": dev, "maxdev": 2 if tier == "quick" else 3})
            out.append({"k": "shapes", "dev": dev})
            out.append({"k": "reuse", "dev": dev})
            out.append({"k": "nosplit", "dev": dev})
            out.append({"k": "invalid", "dev": dev})
            out.append({"k": "lifetime", "dev": dev})
            out.append({"k": "flip", "dev": dev})
            out.append({"k": "within", "dev": dev})
        return out

    def cases(self, chunk):
        if chunk["k"] == "lists":
            if chunk["len"] == 1:
                lists = [[t] for t in range(len(TRIPLES))]
            else:
                lists = ([chunk["first"]] + list(rest) for rest in itertools.product(range(len(TRIPLES)), repeat=chunk["len"] - 1))
            for li in lists:
                if chunk["len"] == 3 and len(set(li)) == 1:
                    pass
                for pb in ("auto", "source", "destination"):
                    yield {"k": "t", "dev": chunk["dev"], "src": chunk["src"], "dst": "plate", "tr": list(li), "pb": pb, "opts": []}
        elif chunk["k"] == "dev":
            fam = subfamily()
            for nd in range(1, chunk["maxdev"] + 1):
                for combo in itertools.combinations(range(len(OPTIONS)), nd):
                    names = [OPTIONS[i][0] for i in combo]
                    if len(set(names)) != len(names):
                        continue
                    for li in fam:
                        for pb in ("auto", "destination") if nd > 1 else ("auto", "source", "destination"):
                            yield {"k": "t", "dev": chunk["dev"], "src": "plate" if (sum(li) + nd) % 2 else "trough", "dst": "plate", "tr": li, "pb": pb, "opts": list(combo)}
        elif chunk["k"] == "nosplit":
            small = [i for i, t in enumerate(TRIPLES) if t[2] in (0, 10, 45)]
            for n in (1, 2, 3):
                for li in itertools.product(small, repeat=n):
                    if n == 3 and (li[0] + li[1] * 3 + li[2] * 7) % 6:
                        continue
                    for pb in ("auto", "destination"):
                        yield {"k": "t", "dev": chunk["dev"], "src": "plate" if sum(li) % 2 else "trough", "dst": "plate", "tr": list(li), "pb": pb, "opts": [], "auto_split": False}
        elif chunk["k"] == "reuse":
            for first in ("plate", "trough"):
                for li in subfamily()[:24]:
                    for pb in ("auto", "source"):
                        yield {"k": "reuse", "dev": chunk["dev"], "first": first, "tr": li, "pb": pb}
        elif chunk["k"] == "within":
            # transfers inside one labware whose later triples live on what earlier triples of the same call deliver
            for order in ([0, 1], [1, 0], [0, 1, 2], [2, 1, 0]):
                for vols in ([50, 40, 30], [120, 110, 100], [10, 10, 10]):
                    for pb in ("auto", "source"):
                        yield {"k": "within", "dev": chunk["dev"], "order": order, "vols": vols, "pb": pb}
        elif chunk["k"] == "flip":
            # wl.diti_mode re-assigned on the live worklist between two transfers with the same wash scheme
            for wash in (1, 2, 3, 4, "flush", "reuse"):
                for first in (False, True):
                    for li in subfamily()[:6]:
                        yield {"k": "flip", "dev": chunk["dev"], "wash": wash, "first": first, "tr": li}
        elif chunk["k"] == "lifetime":
            for wells in (["A02", "B02", "B03"], ["B01", "A03"], ["B02"]):
                yield {"k": "lifetime", "dev": chunk["dev"], "wells": wells}
        elif chunk["k"] == "shapes":
            for sk in ("plate", "trough"):
                for pb in ("auto", "source", "destination"):
                    for shape in range(len(SHAPES)):
                        yield {"k": "s", "dev": chunk["dev"], "src": sk, "pb": pb, "shape": shape}
        else:
            for ls in itertools.product((1, 2, 3), repeat=3):
                big = max(ls)
                if all(x in (1, big) for x in ls):
                    continue
                yield {"k": "bad", "dev": chunk["dev"], "lens": list(ls), "neg": None}
            # an empty argument next to non-empty ones: what the others name would be dropped silently
            for ls in itertools.product((0, 1, 2), repeat=3):
                if 0 in ls and any(ls):
                    yield {"k": "bad", "dev": chunk["dev"], "lens": list(ls), "neg": None}
            for n in (1, 2, 3):
                for i in range(n):
                    for val in (-5, -0.01, -120):
                        yield {"k": "bad", "dev": chunk["dev"], "lens": [n, n, n], "neg": [i, val]}
            yield {"k": "bad", "dev": chunk["dev"], "lens": [2, 2, 1], "neg": [0, -10]}

    # ------------------------------------------------------------------
    def one_lifetime(self, case):
        """one worklist object outlives many labware objects (cm.lifetime_scenario)"""
        dev = "evo" if case["dev"] == "EvoWorklist" else "fluent"
        wl = getattr(rt, case["dev"])(max_volume=MAXV)

        def check(recs, gs, gd):
            P = [gwl.parse(r) for r in recs["w"]]
            a = sorted(p["position"] for p in P if p["kind"] == "A")
            d = sorted(p["position"] for p in P if p["kind"] == "D")
            if a != sorted(gs.position(dev, w) for w in case["wells"]) or d != sorted(gd.position(dev, w) for w in case["wells"]):
                return "records address other positions than those of the named wells"
            return None

        try:
            problem = cm.lifetime_scenario({"w": wl}, case["wells"], check)
        except Exception as e:
            return "lifetime:raised", None, [("C07/valid-transfer-raised", f"on a long-lived worklist: {type(e).__name__}")]
        V = [("C07/flows", f"one {case['dev']} used with labware objects that were created and dropped one after the other: {problem}")] if problem else []
        return "lifetime:ok", f"lifetime{case}", V

    def one(self, case):
        if case["k"] == "bad":
            return self.one_bad(case)
        if case["k"] == "lifetime":
            return self.one_lifetime(case)
        if case["k"] == "within":
            chain = [("A01", "A02"), ("A02", "A03"), ("A03", "B03")]
            sel = [chain[i] for i in case["order"]]
            vols = [case["vols"][i] for i in case["order"]]
            lw = rt.Labware("L", 2, 3, min_volume=0, max_volume=1000, initial_volumes=[[150, 0, 0], [0, 0, 0]])
            wl = getattr(rt, case["dev"])(max_volume=MAXV)
            try:
                wl.transfer(lw, [a for a, _ in sel], lw, [b for _, b in sel], vols, partition_by=case["pb"])
            except Exception as e:
                return "within:raised", repr(case), [("C07/valid-transfer-raised", f"chained transfer inside one plate {sel} {vols} (A01 holds 150, the others are empty; column groups run left to right): {type(e).__name__}: {e}")]
            want = {"A01": 150.0, "A02": 0.0, "A03": 0.0, "B03": 0.0}
            for (a, b), v in zip(sel, vols):
                want[a] -= v
                want[b] += v
            got = {w: float(lw.volumes[lw.indices[w]]) for w in want}
            P = [gwl.parse(r) for r in wl if r[0] in "AD"]
            flows = {}
            for a, d in zip(P[0::2], P[1::2]):
                flows[(a["position"], d["position"])] = flows.get((a["position"], d["position"]), 0) + a["volume"]
            g = Geo("L", "plate", 2, 3)
            dev = "evo" if case["dev"] == "EvoWorklist" else "fluent"
            wantf = {(g.position(dev, a), g.position(dev, b)): Fraction(v) for (a, b), v in zip(sel, vols)}
            V = []
            if got != want:
                V.append(("C07/flows", f"chained transfer inside one plate {sel} {vols}: volumes {got}, expected {want}"))
            if {k: v for k, v in flows.items()} != wantf:
                V.append(("C07/flows", f"chained transfer inside one plate {sel} {vols}: record flows {flows}, expected {wantf}"))
            return "within:ok", repr(case), V
        if case["k"] == "flip":
            tr = [TRIPLES[i] for i in case["tr"]]
            sw, dw, vols = [t[0] for t in tr], [t[1] for t in tr], [t[2] for t in tr]
            first = case["first"]
            wl = getattr(rt, case["dev"])(max_volume=MAXV, diti_mode=first)
            base = {"k": "t", "dev": case["dev"], "src": "plate", "dst": "plate", "pb": "auto"}
            opts1 = [("wash", case["wash"])] + ([("diti", True)] if first else [])
            o1, k1, V1 = self.run(base, sw, dw, vols, sw, dw, vols, "plate", opts1, wl=wl)
            del wl[:]
            wl.diti_mode = not first
            opts2 = [("wash", case["wash"])] + ([("diti", True)] if not first else [])
            o2, k2, V2 = self.run(base, sw, dw, vols, sw, dw, vols, "plate", opts2, wl=wl)
            return "flip:" + o2, repr(case), V1 + [(c, f"after wl.diti_mode = {not first} on the live worklist: {d}") for c, d in V2]
        if case["k"] == "reuse":
            # the same worklist object first sees labware "S"/"D" of one geometry, then of another
            second = "trough" if case["first"] == "plate" else "plate"
            wl = getattr(rt, case["dev"])(max_volume=MAXV)
            tr = [TRIPLES[i] for i in case["tr"]]
            sw, dw, vols = [t[0] for t in tr], [t[1] for t in tr], [t[2] for t in tr]
            s1, d1 = build(case["first"], second)
            wl.transfer(s1, sw, d1, dw, vols, partition_by=case["pb"])
            del wl[:]
            c2 = dict(case, src=second, dst=case["first"], opts=[])
            o, key, V = self.run(c2, sw, dw, vols, sw, dw, vols, case["first"], [], wl=wl)
            return "reuse:" + o, key, [(c + "/order-dependent", "worklist reused for labware of the same name and another geometry: " + str(d)) for c, d in V]
        if case["k"] == "s":
            sw, dw, vols, kw = SHAPES[case["shape"]]
            return self.run(case, dec(sw), dec(dw), dec(vols), flat_f(plain(sw)), flat_f(plain(dw)), flat_f(plain(vols)), "plate", [])
        tr = [TRIPLES[i] for i in case["tr"]]
        sw, dw, vols = [t[0] for t in tr], [t[1] for t in tr], [t[2] for t in tr]
        dst_kind = "trough" if any(OPTIONS[i] == ("dst", "trough") for i in case["opts"]) else "plate"
        return self.run(case, sw, dw, vols, sw, dw, vols, dst_kind, [OPTIONS[i] for i in case["opts"]])

    def run(self, case, sw_arg, dw_arg, v_arg, sw, dw, vols, dst_kind, opts, wl=None):
        dev = "evo" if case["dev"] == "EvoWorklist" else "fluent"
        s, d = build(case["src"], dst_kind)
        gs, gd = GS[case["src"]], GD[dst_kind]
        o = dict((k, v) for k, v in opts)
        if wl is None:
            dm = np.bool_(True) if o.get("diti") == "numpy.bool_" else bool(o.get("diti"))
            wl = getattr(rt, case["dev"])(max_volume=MAXV, diti_mode=dm, auto_split=case.get("auto_split", True))
        # the deck is also looked at with the other device's public numbering helper (nothing is pipetted)
        cm.other_device_looks({"lw": {"s": s, "d": d}}, case["dev"])
        kw = {"partition_by": case["pb"]}
        if "wash" in o:
            kw["wash_scheme"] = o["wash"]
        if "lc" in o:
            kw["liquid_class"] = o["lc"]
        if "tip" in o:
            kw["tip"] = dec(o["tip"])
        for k in ("rack_id", "rack_type", "label"):
            if k in o:
                kw[k] = o[k]
        s0, d0 = s.volumes, d.volumes
        try:
            wl.transfer(s, sw_arg, d, dw_arg, v_arg, **kw)
        except Exception as e:
            return "valid:raised", None, [("C07/valid-transfer-raised", f"{type(e).__name__}: {e}")]
        # reference reading of the request
        b = cm.bcast([list(sw), list(dw), list(vols)])
        req = [(gs.real(a), gd.real(c), Fraction(v)) for a, c, v in zip(*b)]
        want = cm.agg(((a, c), v) for a, c, v in req)
        V = []
        recs = list(wl)
        # (1) stream shape
        wash = o.get("wash", 1)
        action = "F;" if wash == "flush" else None if wash == "reuse" else ("W;" if o.get("diti") else f"W{wash};")
        try:
            P = [gwl.parse(r) for r in recs]
        except gwl.ParseError as e:
            return "unparsable", None, [("C07/unparsable-record", str(e))]
        i = 0
        if "label" in o:
            if not P or P[0]["kind"] != "C" or P[0]["text"] != o["label"]:
                V.append(("C07/stream", f"label comment missing: {recs[:2]}"))
            else:
                i = 1
        items = []
        while i < len(P):
            p = P[i]
            if p["kind"] == "B":
                items.append("B")
                i += 1
                continue
            if p["kind"] != "A":
                V.append(("C07/stream", f"unexpected record #{i} {p['raw']!r} in {recs[max(0, i - 2): i + 2]}"))
                break
            if i + 1 >= len(P) or P[i + 1]["kind"] != "D":
                V.append(("C07/stream", f"aspirate #{i} {p['raw']!r} is not immediately followed by a dispense"))
                break
            q = P[i + 1]
            if (p["volume_s"], p["liquid_class"], p["tip_mask"]) != (q["volume_s"], q["liquid_class"], q["tip_mask"]):
                V.append(("C07/pair-mismatch", f"{p['raw']!r} / {q['raw']!r}"))
            i += 2
            nxt = P[i]["raw"] if i < len(P) else None
            if action is not None:
                if nxt != action:
                    V.append(("C07/tip-action", f"after {q['raw']!r} expected {action!r}, found {nxt!r}"))
                else:
                    i += 1
            elif nxt is not None and P[i]["kind"] in ("W", "F", "WD"):
                V.append(("C07/tip-action", f"reuse requested but {nxt!r} follows {q['raw']!r}"))
            items.append((p, q))
        if V:
            return "stream-broken", repr(case), V
        pairs = [x for x in items if x != "B"]
        # pass-through fields
        for p, q in pairs:
            for r_ in (p, q):
                if r_["liquid_class"] != o.get("lc", ""):
                    V.append(("C07/pass-through", f"liquid class {r_['liquid_class']!r} in {r_['raw']!r}"))
                if r_["rack_id"] != o.get("rack_id", "") or r_["rack_type"] != o.get("rack_type", ""):
                    V.append(("C07/pass-through", f"rack id/type in {r_['raw']!r}"))
                wantmask = None
                if "tip" in o:
                    t = plain(o["tip"])
                    wantmask = 0
                    for x in t if isinstance(t, list) else [t]:
                        wantmask |= 1 << (x - 1)
                if r_["tip_mask"] != wantmask:
                    V.append(("C07/pass-through", f"tip mask {r_['tip_mask']} (expected {wantmask}) in {r_['raw']!r}"))
            if p["label"] != "S" or q["label"] != "D":
                V.append(("C07/flows", f"racks {p['label']}->{q['label']}"))
        # (2) flows
        flows = []
        for p, q in pairs:
            a, c = gs.decode(dev, p["position"]), gd.decode(dev, q["position"])
            if a is None or c is None:
                V.append(("C07/flows", f"record addresses a non-existent well: {p['raw']!r} / {q['raw']!r}"))
                return "bad-address", repr(case), V
            flows.append(((a, c), p["volume"]))
        got = cm.agg(flows)
        if got != want:
            V.append(("C07/flows", f"requested {fmt(want)} emitted {fmt(got)}"))
        # labware state follows the request
        for g, lw, v0, sign, idx in ((gs, s, s0, -1, 0), (gd, d, d0, 1, 1)):
            for cell in g.real_wells():
                delta = sum((v for k, v in want.items() if k[idx] == cell), Fraction(0))
                if Fraction(float(lw.volumes[cell])) != Fraction(float(v0[cell])) + sign * delta:
                    V.append(("C07/labware-state", f"{lw.name}{cell}: {v0[cell]} -> {lw.volumes[cell]}, requested change {float(sign * delta)}"))
        # (3) number of steps and bounds
        nwant = sum(ksteps(v) for _, _, v in req)
        if len(pairs) != nwant:
            V.append(("C07/step-count", f"{len(pairs)} pairs for volumes {[float(v) for _, _, v in req]}, expected {nwant}"))
        if any(p["volume"] > MAXV or p["volume"] <= 0 for p, _ in pairs):
            V.append(("C07/step-bounds", f"{[float(p['volume']) for p, _ in pairs]}"))
        # (4) break discipline per column group of the (reference) partition side
        pb = case["pb"]
        if pb == "auto":
            pb = "destination" if case["src"] in ("trough", "gtrough") and dst_kind != "trough" else "source"
        side = 0 if pb == "source" else 1
        ids = list(zip(*b))
        groups = {}
        for (a, c, v) in ids:
            col = parse_id(a if side == 0 else c)[1]
            groups.setdefault(col, []).append(Fraction(v))
        if not V:
            pos = 0
            for col in sorted(groups):
                vs = groups[col]
                npairs = sum(ksteps(v) for v in vs)
                split = any(ksteps(v) > 1 for v in vs)
                seen = 0
                while seen < npairs and pos < len(items):
                    if items[pos] != "B":
                        seen += 1
                        if side == 0 and gs.decode(dev, items[pos][0]["position"]) is not None and not gs.is_trough:
                            if gs.decode(dev, items[pos][0]["position"])[1] != col:
                                V.append(("C07/group-order", f"pair #{pos} is not in source column {col + 1}"))
                    pos += 1
                if split:
                    if pos >= len(items) or items[pos] != "B":
                        V.append(("C07/break-missing", f"column group {col + 1} ({pb}) with volumes {[float(v) for v in vs]} is not closed by a break record: {recs}"))
                    else:
                        pos += 1
                elif npairs and pos < len(items) and items[pos] == "B":
                    pass  # an extra break is harmless and not forbidden by the statement
        return f"ok:{min(len(pairs), 6)}pairs", repr(case), V

    def one_bad(self, case):
        s, d = build("plate", "plate")
        wl = getattr(rt, case["dev"])(max_volume=MAXV)
        ls = case["lens"]
        sw, dw, vols = SRC[: ls[0]], DST[: ls[1]], [10.0, 70.0, 30.0][: ls[2]]
        if case["neg"]:
            vols = list(vols)
            vols[case["neg"][0] % len(vols)] = case["neg"][1]
        s0, d0 = s.volumes, d.volumes
        try:
            wl.transfer(s, sw, d, dw, vols)
        except Exception as e:
            V = []
            if len(wl) or (s.volumes != s0).any() or (d.volumes != d0).any():
                V.append(("C07/rejected-call-left-traces", f"lens {ls} neg {case['neg']}: records {list(wl)}"))
            return f"bad:raised:{type(e).__name__}", repr(case), V
        what = "negative volume" if case["neg"] else f"incompatible lengths {ls}"
        return "bad:accepted", repr(case), [("C07/invalid-input-accepted", f"{what}: transfer returned normally; records {list(wl)[:4]}, destination {d.volumes.tolist()}")]


def plain(x):
    if isinstance(x, dict):
        if "$a" in x:
            return plain(x["$a"])
        if "$tip" in x:
            return int(x["$tip"][1:])
    if isinstance(x, list):
        return [plain(v) for v in x]
    return x


def fmt(d):
    return {str(k): float(v) for k, v in sorted(d.items())}


def subfamily():
    """48 lists: a spread over lengths 1..3 with splits, zeros, repeats and unsorted order"""
    fam = []
    idx = {t: i for i, t in enumerate(TRIPLES)}
    picks = [
        [("A01", "A01", 10)], [("B02", "A02", 120)], [("A02", "B01", 70)], [("B01", "A02", 0)],
        [("B01", "B01", 70), ("A01", "A01", 45)], [("A02", "A01", 120), ("A01", "A01", 148.25)], [("B02", "A02", 10), ("B02", "A01", 70)],
        [("A01", "A02", 0), ("B01", "A02", 120)], [("B02", "B01", 70), ("A01", "B01", 70)], [("A01", "A01", 10), ("A01", "A01", 10)],
        [("B01", "A02", 148.25), ("A02", "A02", 10), ("A01", "A01", 70)], [("B02", "A01", 0), ("A02", "A01", 0), ("B01", "B01", 0)],
    ]
    for p in picks:
        fam.append([idx[t] for t in p])
    k = 0
    for a in range(0, 72, 7):
        for b_ in range(3, 72, 11):
            fam.append([a, b_] if k % 2 else [b_, a, (a + b_) % 72])
            k += 1
    return fam[:48]


SHAPES = [
    # (source wells, destination wells, volumes, kwargs): 2-D arrays (column-major) and singleton broadcast
    ({"$a": [["A01", "A02"], ["B01", "B02"]]}, {"$a": [["A01", "A02"], ["B01", "B02"]]}, {"$a": [[10, 70], [0, 120]]}, {}),
    ({"$a": [["A01", "A02"], ["B01", "B02"]]}, ["A01", "B01", "A02", "A03"], [10, 20, 70, 120], {}),
    (["B02", "A02", "B01", "A01"], {"$a": [["A01", "A02"], ["B01", "B02"]]}, {"$a": [[10, 70], [30, 120]]}, {}),
    ("A01", ["A01", "B01", "A03"], [10, 70, 120], {}),
    (["A01"], ["A01", "B01", "A03"], 70, {}),
    (["A01", "B02", "A02"], "B01", [10, 70, 120], {}),
    (["A01", "B02", "A02"], ["A03"], [120], {}),
    (["A02", "B01"], ["A01", "A01"], 120, {}),
    ("B02", "A03", 120, {}),
    ({"$a": [["A01"], ["B01"], ["C01"]]}, ["A01", "B01", "A02"], {"$a": [[70], [10], [120]]}, {}),
    (["C02", "A01"], ["B03", "A01"], [70, 10], {}),
]
