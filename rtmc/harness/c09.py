"""C09 - every record is well-formed and carries exactly the arguments given."""
import itertools
import math
from fractions import Fraction

from ..ref import gwl
from ..world import dec, rt
from . import common as cm

OK, REJ, FREE = "ok", "reject", "free"
NAN, INF = float("nan"), float("inf")
T32, T33 = "L" * 32, "M" * 33

RACK = [("", OK), ("x", OK), ("Water µ", OK), (T32, OK), (T33, REJ), ("a;b", REJ), (";", REJ),
        # str subclasses: robotools.Labwares.SystemLiquid (its value is "Systemliquid", as in the documentation's
        # example) and numpy.str_
        ({"$enum": "SystemLiquid"}, OK), ({"$npstr": "Plate 7"}, OK)]


def plain_text(v):
    """what a text argument says, whatever str subclass carries it"""
    if isinstance(v, dict) and "$enum" in v:
        return {"SystemLiquid": "Systemliquid"}[v["$enum"]]
    if isinstance(v, dict) and "$npstr" in v:
        return v["$npstr"]
    return v
TEXT = [("", OK), ("x", OK), ("Water µ", OK), (T32, OK), (T33, FREE), ("a;b", REJ), (";", REJ)]
VOL50 = [(0, OK), (0.005, OK), (12.345, OK), (50, OK), (math.nextafter(50, INF), REJ), (-1, REJ), (NAN, REJ), (INF, REJ), ("12", FREE), (7158279, REJ), (2.675, OK)]
POS = [(1, OK), (7, OK), (96, OK), (0, FREE), (-1, REJ), (1.5, REJ), ("3", REJ), ({"$none": 1}, REJ)]
# (a numpy integer as the position of a single aspirate/dispense record is refused by the unchanged tree: a spurious
# refusal, which the statement does not forbid)
TIP = [({"$tip": "Any"}, OK), (3, OK), ({"$tip": "T8"}, OK), ([1, 2], OK), ([{"$tip": "T2"}, 2], OK), ({"$iter": [1, {"$tip": "T3"}]}, OK), ({"$tuple": [8, 1]}, OK), ([4, {"$tip": "T3"}], OK), ([{"$tip": "T4"}, 8, 4], OK), (0, REJ), (9, REJ), ([1, {"$tip": "Any"}], REJ), ({"$iter": [1, 0]}, REJ)]
# the status of an exclusion list depends on the destination range and is decided in one_r
EXCL = [({"$none": 1}, OK), ([], OK), ([3], OK), ([1, 12], OK), ([5, 3], OK), ([3, 3], FREE), ([0], OK), ([13], OK), ([3, 20], OK),
        ({"$iter": [5, 3]}, OK), ({"$tuple": [2, 9, 4]}, OK), ({"$set": [7, 2]}, OK), ({"$iter": [3, 20]}, OK)]  # one-shot iterators, tuples, sets
DIRECTION = [("left_to_right", OK), ("right_to_left", OK), ("up", REJ), ("", REJ)]

AD_FIELDS = {
    "rack_label": RACK[1:],
    "position": POS,
    "volume": VOL50,
    "liquid_class": TEXT,
    "tip": TIP,
    "rack_id": RACK,
    "tube_id": TEXT,
    "rack_type": RACK,
    "forced_rack_type": RACK,
}
AD_DEFAULT = {"rack_label": "Plate", "position": 5, "volume": 10.0, "liquid_class": "", "tip": {"$tip": "Any"}, "rack_id": "", "tube_id": "", "rack_type": "", "forced_rack_type": ""}

R_FIELDS = {
    "src_rack_label": RACK[1:],
    "src_start": POS + [({"$npi": 7}, OK)],  # numpy integers (a column index from numpy.argmax / arange) are integers
    "src_end": POS + [({"$npi": 96}, OK)],
    "dst_rack_label": RACK[1:],
    "dst_start": [(1, OK), (2, OK), ({"$npi": 2}, OK), (0, FREE), (-1, REJ), (1.5, REJ), ("1", REJ)],
    "dst_end": [(12, OK), (96, OK), ({"$npi": 12}, OK), (-1, REJ), (12.5, REJ), ({"$none": 1}, REJ)],
    "volume": [(0.25, OK), (12.345, OK), (50, OK), (25, OK), (math.nextafter(50, INF), REJ), (-1, REJ), (NAN, REJ), (INF, REJ), (1e-05, FREE)],
    "diti_reuse": [(1, OK), (3, OK)],
    "multi_disp": [(1, OK), (2, OK), (12, OK)],
    "exclude_wells": EXCL,
    "liquid_class": TEXT,
    "direction": DIRECTION,
    "src_rack_id": RACK,
    "src_rack_type": RACK,
    "dst_rack_id": RACK,
    "dst_rack_type": RACK,
}
R_DEFAULT = {"src_rack_label": "Trough", "src_start": 1, "src_end": 8, "dst_rack_label": "Plate", "dst_start": 1, "dst_end": 12, "volume": 10.0, "diti_reuse": 1, "multi_disp": 1, "exclude_wells": {"$none": 1}, "liquid_class": "", "direction": "left_to_right", "src_rack_id": "", "src_rack_type": "", "dst_rack_id": "", "dst_rack_type": ""}

SIMPLE = {
    "wash": [((1,), OK, "W1;"), ((2,), OK, "W2;"), ((3,), OK, "W3;"), ((4,), OK, "W4;"), ((), OK, "W1;"), ((0,), REJ, None), ((5,), REJ, None), (("1",), REJ, None), ((None,), REJ, None), ((-1,), REJ, None)],
    "decontaminate": [((), OK, "WD;")],
    "flush": [((), OK, "F;")],
    "commit": [((), OK, "B;")],
}
COMMENTS = [
    ("plain text", ["C;plain text"]), ("5 µL of Water (20 °C)", ["C;5 µL of Water (20 °C)"]), ("x" * 40, ["C;" + "x" * 40]),
    ("line one\nline two", ["C;line one", "C;line two"]), ("a\n\nb\n", ["C;a", "C;b"]), ("", []), ({"$none": 1}, []),
    ("a;b", None), (";", None), ("first\nsecond;x", None),
]


def val(x):
    if isinstance(x, dict) and "$none" in x:
        return None
    return dec(x)


def tip_mask(t):
    if t == {"$tip": "Any"}:
        return None
    m = 0
    if isinstance(t, dict) and ("$iter" in t or "$tuple" in t):
        t = t.get("$iter") or t.get("$tuple")
    for x in t if isinstance(t, list) else [t]:
        n = x if isinstance(x, int) else int(x["$tip"][1:])
        m |= 1 << (n - 1)
    return m


class Harness(cm.BaseB):
    id = "C09"
    rule = (
        "per emitter (aspirate_well, dispense_well, reagent_distribution, wash, decontaminate, flush, commit, comment, "
        "set_diti; fixed-tip and DiTi mode; Base/Evo/Fluent worklists) the product of per-field value classes with <= 2 "
        "(thorough <= 3) non-default fields: text {'', 'x', 'Water µ', 32 chars, 33 chars, 'a;b', ';'}, volumes {0, 0.005, "
        "12.345, 2.675, max, max+1ulp, -1, NaN, inf, '12', 7158278/9}, positions {1, 7, 96, 0, -1, 1.5, '3', None}, tips, "
        "directions, exclusion lists (inside, boundary, unsorted, duplicate, outside), multi_disp; keyword pass-through "
        "via aspirate/dispense/transfer/distribute; DiTi protocol: every sequence of <= 3 record emitters followed by "
        "set_diti.  Decoded by the independent parser.  non-trivial = at least one non-default field; distinct = distinct call"
    )
    assumptions = [
        "position 0, booleans, non-integral DiTi indices, wash(1.0), strings as volumes, liquid classes / tube ids above 32 characters and duplicate exclusions are outside the must-accept / must-reject lists (either outcome is accepted, the record must still parse)",
        "a script command record 'B;Aspirate(...)' counts as a break record for set_diti (either outcome accepted)",
    ]

    def bounds(self, tier):
        return {"max_deviations": 2 if tier == "quick" else 3, "worklist_max_volume": 50}

    def chunks(self, tier):
        md = 2 if tier == "quick" else 3
        out = []
        for em in ("aspirate_well", "dispense_well"):
            for diti in (False, True):
                for f0 in range(len(AD_FIELDS)):
                    out.append({"k": "ad", "em": em, "diti": diti, "f0": f0, "maxdev": md})
        for f0 in range(len(R_FIELDS)):
            out.append({"k": "r", "f0": f0, "maxdev": md if f0 % 2 == 0 or tier != "quick" else 2})
        out += [{"k": "simple"}, {"k": "diti"}, {"k": "pass"}, {"k": "big"}]
        return out

    def cases(self, chunk):
        k = chunk["k"]
        if k in ("ad", "r"):
            fields = AD_FIELDS if k == "ad" else R_FIELDS
            names = list(fields)
            f0 = names[chunk["f0"]]
            base = {"k": k, "em": chunk.get("em", "reagent_distribution"), "diti": chunk.get("diti", False)}
            if chunk["f0"] == 0:
                yield dict(base, dev={})
            for v0 in range(len(fields[f0])):
                yield dict(base, dev={f0: v0})
                for f1 in names[chunk["f0"] + 1 :]:
                    for v1 in range(len(fields[f1])):
                        yield dict(base, dev={f0: v0, f1: v1})
                        if chunk["maxdev"] >= 3:
                            for f2 in names[names.index(f1) + 1 :]:
                                for v2 in range(len(fields[f2])):
                                    if fields[f2][v2][1] != OK or fields[f1][v1][1] != OK or fields[f0][v0][1] != OK or (v0 + v1 + v2) % 3 == 0:
                                        yield dict(base, dev={f0: v0, f1: v1, f2: v2})
        elif k == "simple":
            for cls in ("BaseWorklist", "EvoWorklist", "FluentWorklist", "Worklist", "Worklist:pos", "FluentWorklist:pos", "BaseWorklist:mixed"):
                for diti in (False, True):
                    for em, rows in SIMPLE.items():
                        for i in range(len(rows)):
                            yield {"k": "simple", "cls": cls, "diti": diti, "em": em, "i": i}
                    for i in range(len(COMMENTS)):
                        yield {"k": "comment", "cls": cls, "diti": diti, "i": i}
        elif k == "diti":
            ems = list(range(len(DITI_EMITTERS)))
            for n in range(0, 4):
                for seq in itertools.product(ems, repeat=n):
                    for idx in (1, 0, 7):
                        if idx != 1 and n > 1:
                            continue
                        yield {"k": "diti", "seq": list(seq), "index": idx}
        elif k == "pass":
            for cls in ("EvoWorklist", "FluentWorklist"):
                for i in range(len(PASS_CASES)):
                    yield {"k": "pass", "cls": cls, "i": i}
        else:
            for em in ("aspirate_well", "dispense_well", "reagent_distribution"):
                for v, st in ((7158278, OK), (7158279, REJ), (1e6, OK), (7158278.004, FREE)):
                    yield {"k": "big", "em": em, "v": v, "st": st}

    def one(self, case):
        return getattr(self, "one_" + case["k"])(case)

    # ------------------------------------------------------------------ A / D records
    def one_ad(self, case):
        args = dict(AD_DEFAULT)
        status = OK
        for f, vi in case["dev"].items():
            v, st = AD_FIELDS[f][vi]
            args[f] = v
            status = REJ if REJ in (status, st) else FREE if FREE in (status, st) else OK
        wl = rt.BaseWorklist(max_volume=50, diti_mode=case["diti"])
        wl.append("C;before")
        call = {k: val(v) for k, v in args.items()}
        args = {k: plain_text(v) for k, v in args.items()}
        lab, pos, vol = call.pop("rack_label"), call.pop("position"), call.pop("volume")
        try:
            getattr(wl, case["em"])(lab, pos, vol, **call)
        except Exception as e:
            return self.refused(wl, status, case, e)
        V = self.accepted(wl, status, case, 1)
        if V or status != OK:
            return f"{case['em']}:accepted:{status}", repr(case), V
        p = gwl.parse(wl[-1])
        want = {
            "kind": "A" if case["em"] == "aspirate_well" else "D", "label": args["rack_label"], "rack_id": args["rack_id"], "rack_type": args["rack_type"],
            "position": args["position"], "tube_id": args["tube_id"], "liquid_class": args["liquid_class"], "tip_type": "",
            "tip_mask": tip_mask(args["tip"]), "forced_rack_type": args["forced_rack_type"],
        }
        for k, w in want.items():
            if p[k] != w:
                V.append(("C09/decoded-field-differs", f"{case['em']}({args}): field {k} decodes to {p[k]!r}, given {w!r}: {wl[-1]!r}"))
        if abs(p["volume"] - Fraction(args["volume"])) > Fraction(5, 1000) + Fraction(1, 10**12):
            V.append(("C09/decoded-field-differs", f"{case['em']}: volume {args['volume']!r} emitted as {p['volume_s']!r}"))
        return f"{case['em']}:ok", repr(case), V

    def refused(self, wl, status, case, e):
        V = []
        if list(wl) != ["C;before"]:
            V.append(("C09/refused-call-appended", f"{case}: raised {type(e).__name__} but the worklist is now {list(wl)}"))
        if status == OK:
            V.append(("C09/representable-call-refused", f"{case}: {type(e).__name__}: {e}"))
        return f"{case.get('em', case['k'])}:refused:{status}", repr(case), V

    def accepted(self, wl, status, case, nexp):
        V = []
        new = list(wl)[1:]
        if status == REJ:
            V.append(("C09/unrepresentable-call-accepted", f"{case}: appended {new}"))
            return V
        for r in new:
            try:
                gwl.parse(r)
            except gwl.ParseError as e:
                V.append(("C09/malformed-record", f"{case}: {r!r}: {e}"))
        if status == OK and len(new) != nexp:
            V.append(("C09/record-count", f"{case}: appended {len(new)} records, expected {nexp}: {new}"))
        return V

    # ------------------------------------------------------------------ R records
    def one_r(self, case):
        args = dict(R_DEFAULT)
        status = OK
        for f, vi in case["dev"].items():
            v, st = R_FIELDS[f][vi]
            args[f] = v
            status = REJ if REJ in (status, st) else FREE if FREE in (status, st) else OK
        raw = args
        args = {k: plain_text(v["$npi"] if isinstance(v, dict) and "$npi" in v else v) for k, v in raw.items()}  # what the oracle reads
        for tag in ("$iter", "$tuple", "$set"):
            if isinstance(args["exclude_wells"], dict) and tag in args["exclude_wells"]:
                args["exclude_wells"] = list(args["exclude_wells"][tag])
        # interactions between fields: exclusions must lie inside the (possibly changed) destination range
        ds, de, ex = args["dst_start"], args["dst_end"], args["exclude_wells"]
        if status != REJ and isinstance(ex, list) and ex and isinstance(ds, int) and isinstance(de, int):
            if any(not (ds <= x <= de) for x in ex):
                status = REJ
        if status == OK and (args["src_end"] < args["src_start"] or de < ds):
            status = FREE
        wl = rt.BaseWorklist(max_volume=50)
        wl.append("C;before")
        call = {k: val(v) for k, v in raw.items()}
        pos = [call.pop(k) for k in ("src_rack_label", "src_start", "src_end", "dst_rack_label", "dst_start", "dst_end")]
        try:
            wl.reagent_distribution(*pos, **call)
        except Exception as e:
            return self.refused(wl, status, case, e)
        V = self.accepted(wl, status, case, 1)
        if V or status != OK:
            return f"R:accepted:{status}", repr(case), V
        p = gwl.parse(wl[-1])
        want = {
            "src_label": args["src_rack_label"], "src_id": args["src_rack_id"], "src_type": args["src_rack_type"], "src_start": args["src_start"], "src_end": args["src_end"],
            "dst_label": args["dst_rack_label"], "dst_id": args["dst_rack_id"], "dst_type": args["dst_rack_type"], "dst_start": ds, "dst_end": de,
            "liquid_class": args["liquid_class"], "diti_reuse": args["diti_reuse"], "direction": 0 if args["direction"] == "left_to_right" else 1,
        }
        for k, w in want.items():
            if p[k] != w:
                V.append(("C09/decoded-field-differs", f"reagent_distribution({case['dev']}): field {k} decodes to {p[k]!r}, given {w!r}: {wl[-1]!r}"))
        if float(p["volume"]) != float(args["volume"]):
            V.append(("C09/decoded-field-differs", f"R volume {args['volume']!r} emitted as {p['volume_s']!r}"))
        exl = [] if not isinstance(ex, list) else ex
        if p["exclude"] != sorted(p["exclude"]) or set(p["exclude"]) != set(exl) or len(p["exclude"]) != len(exl):
            V.append(("C09/exclusion-list", f"exclude_wells={exl} emitted as {p['exclude']}"))
        md, v = args["multi_disp"], Fraction(args["volume"])
        got = p["multi_disp"]
        fits = lambda k: k * v <= 50 or k * float(v) <= 50
        if got > md or got < 1 or not fits(got) or (got < md and (got + 1) * v <= 50 and (got + 1) * float(v) <= 50):
            V.append(("C09/multi-dispense", f"multi_disp={md}, volume={float(v)}, max_volume=50: emitted {got}"))
        return "R:ok", repr(case), V

    # ------------------------------------------------------------------ one-field records and comments
    def one_simple(self, case):
        a, st, rec = SIMPLE[case["em"]][case["i"]]
        wl = cm.make_worklist(case["cls"], max_volume=50, diti_mode=case["diti"])
        wl.append("C;before")
        status, expect = st, rec
        if case["diti"]:
            if case["em"] == "wash":
                status, expect = (OK, "W;") if st == OK else (FREE, None)
            if case["em"] == "decontaminate":
                status, expect = REJ, None
        try:
            getattr(wl, case["em"])(*a)
        except Exception as e:
            return self.refused(wl, status, case, e)
        V = self.accepted(wl, status, case, 1)
        if not V and status == OK and list(wl)[1:] != [expect]:
            V.append(("C09/decoded-field-differs", f"{case['em']}{a} (diti_mode={case['diti']}) appended {list(wl)[1:]}, expected {[expect]}"))
        return f"{case['em']}:{status}", repr(case), V

    def one_comment(self, case):
        text, expect = COMMENTS[case["i"]]
        wl = cm.make_worklist(case["cls"], max_volume=50, diti_mode=case["diti"])
        wl.append("C;before")
        status = REJ if expect is None else OK
        try:
            wl.comment(val(text))
        except Exception as e:
            return self.refused(wl, status, case, e)
        V = self.accepted(wl, status, case, len(expect or []))
        if not V and status == OK and list(wl)[1:] != expect:
            V.append(("C09/decoded-field-differs", f"comment({text!r}) appended {list(wl)[1:]}, expected {expect}"))
        return f"comment:{status}", repr(case), V

    # ------------------------------------------------------------------ DiTi protocol
    def one_diti(self, case):
        wl = rt.EvoWorklist(max_volume=50, diti_mode=True)
        for i in case["seq"]:
            name, a, kw = DITI_EMITTERS[i]
            if name == "set_diti_unchecked":
                # an earlier, legal S record: only possible at the start or after a break, otherwise a comment
                if len(wl) == 0 or wl[-1] == "B;":
                    try:
                        wl.set_diti(2)
                    except Exception as e:
                        return "set_diti:refused:ok", repr(case), [("C09/representable-call-refused", f"set_diti(2) directly after {list(wl)[-1:]} raised {type(e).__name__}")]
                else:
                    wl.comment("filler")
                continue
            if name.startswith("list:"):
                if name != "list:pop" or len(wl):
                    getattr(wl, name[5:])(*a)
                continue
            getattr(wl, name)(*a, **kw)
        before = list(wl)
        last = before[-1] if before else None
        if last is None or last == "B;":
            status = OK
        elif last.startswith("B;"):
            status = FREE
        else:
            status = REJ
        try:
            wl.set_diti(case["index"])
        except Exception as e:
            V = []
            if list(wl) != before:
                V.append(("C09/refused-call-appended", f"set_diti after {before}: worklist changed"))
            if status == OK:
                V.append(("C09/representable-call-refused", f"set_diti({case['index']}) after {before[-2:]}: {type(e).__name__}"))
            return f"set_diti:refused:{status}", repr(case), V
        V = []
        if status == REJ:
            V.append(("C09/misplaced-diti-switch-accepted", f"set_diti({case['index']}) directly after {last!r} was accepted"))
        if list(wl) != before + [f"S;{case['index']}"]:
            V.append(("C09/decoded-field-differs", f"set_diti({case['index']}) appended {list(wl)[len(before):]}"))
        return f"set_diti:accepted:{status}", repr(case), V

    # ------------------------------------------------------------------ keyword pass-through
    def one_pass(self, case):
        op, kw, status, check = PASS_CASES[case["i"]]
        src = rt.Trough("T", 4, 2, min_volume=0, max_volume=1e5, initial_volumes=[5e4, 5e4])
        dst = rt.Labware("P", 4, 3, min_volume=0, max_volume=1e4, initial_volumes=100)
        wl = getattr(rt, case["cls"])(max_volume=50)
        wl.append("C;before")
        kwd = {k: val(v) for k, v in kw.items()}
        try:
            if op == "aspirate":
                wl.aspirate(dst, ["A01", "B02"], [10, 20], **kwd)
            elif op == "dispense":
                wl.dispense(dst, ["A01", "B02"], [10, 20], **kwd)
            elif op == "transfer":
                wl.transfer(src, ["A01", "B01"], dst, ["A01", "B02"], [10, 70], **kwd)
            else:
                wl.distribute(src, 1, dst, ["A01", "B01", "A02"], volume=10, **kwd)
        except Exception as e:
            V = []
            if [r for r in list(wl)[1:] if r[0] in "ADR"]:
                V.append(("C09/refused-call-appended", f"{op}({kw}) raised {type(e).__name__} but appended {list(wl)[1:]}"))
            if status == OK:
                V.append(("C09/representable-call-refused", f"{op}({kw}): {type(e).__name__}: {e}"))
            return f"pass:{op}:refused", repr(case), V
        V = []
        if status == REJ:
            return f"pass:{op}:accepted", repr(case), [("C09/unrepresentable-call-accepted", f"{op}({kw}) appended {list(wl)[1:]}")]
        try:
            P = [gwl.parse(r) for r in list(wl)[1:]]
        except gwl.ParseError as e:
            return f"pass:{op}:malformed", repr(case), [("C09/malformed-record", f"{op}({kw}): {e}")]
        recs = [p for p in P if p["kind"] in "ADR"]
        if not recs:
            V.append(("C09/record-count", f"{op}({kw}): no pipetting record"))
        for p in recs:
            for k, w in check.items():
                if p.get(k) != w:
                    V.append(("C09/decoded-field-differs", f"{op}({kw}): field {k} of {p['raw']!r} is {p.get(k)!r}, given {w!r}"))
        return f"pass:{op}:ok", repr(case), V

    def one_big(self, case):
        wl = rt.BaseWorklist(max_volume=1e7)
        wl.append("C;before")
        v, st = case["v"], case["st"]
        try:
            if case["em"] == "reagent_distribution":
                wl.reagent_distribution("T", 1, 8, "P", 1, 12, volume=v)
            else:
                getattr(wl, case["em"])("P", 1, v)
        except Exception as e:
            return self.refused(wl, st, case, e)
        V = self.accepted(wl, st, case, 1)
        if not V and st == OK:
            p = gwl.parse(wl[-1])
            if abs(p["volume"] - Fraction(v)) > Fraction(5, 1000):
                V.append(("C09/decoded-field-differs", f"{case['em']} volume {v} emitted as {p['volume_s']}"))
        return f"big:{st}", repr(case), V


DITI_EMITTERS = [
    ("comment", ["note"], {}),
    ("aspirate_well", ["P", 1, 10], {}),
    ("dispense_well", ["P", 2, 10], {}),
    ("reagent_distribution", ["T", 1, 8, "P", 1, 12], {"volume": 10}),
    ("wash", [], {}),
    ("flush", [], {}),
    ("commit", [], {}),
    ("set_diti_unchecked", [], {}),
    ("evo_wash", [], {"tips": [1], "waste_location": (52, 2), "cleaner_location": (52, 1)}),
    # text fields that end in a capital B / contain "B;"-like fragments: only a break *record* permits a switch
    ("aspirate_well", ["PlateB", 1, 10], {"liquid_class": "Buffer_B"}),
    ("dispense_well", ["P", 2, 10], {"rack_id": "0042B", "rack_type": "B"}),
    ("reagent_distribution", ["TroughB", 1, 8, "B", 1, 12], {"volume": 10, "liquid_class": "B"}),
    ("comment", ["B"], {}),
    # the worklist is a list: records merged in or taken out through plain list methods
    ("list:extend", [["C;merged", "A;P;;;1;;10.00;;;;"]], {}),
    ("list:extend", [["D;P;;;1;;10.00;;;;", "W1;", "B;"]], {}),
    ("list:__iadd__", [["B;", "C;merged"]], {}),
    ("list:pop", [], {}),
    ("list:insert", [10**6, "B;"], {}),
]


PASS_CASES = [
    ("aspirate", {"liquid_class": "Water µ", "tip": 3, "rack_id": "RID", "rack_type": "RT", "tube_id": "TUBE", "forced_rack_type": "FRT"}, OK,
     {"liquid_class": "Water µ", "tip_mask": 4, "rack_id": "RID", "rack_type": "RT", "tube_id": "TUBE", "forced_rack_type": "FRT", "label": "P"}),
    ("dispense", {"liquid_class": "LC", "tip": [1, {"$tip": "T4"}]}, OK, {"liquid_class": "LC", "tip_mask": 9, "label": "P"}),
    ("transfer", {"liquid_class": "LC 2", "tip": {"$tip": "T7"}, "rack_id": "R1", "tube_id": "t"}, OK, {"liquid_class": "LC 2", "tip_mask": 64, "rack_id": "R1", "tube_id": "t"}),
    ("transfer", {"liquid_class": "a;b"}, REJ, {}),
    ("transfer", {"rack_type": T33}, REJ, {}),
    ("aspirate", {"tube_id": "a;b"}, REJ, {}),
    ("aspirate", {"rack_id": ";"}, REJ, {}),
    ("dispense", {"forced_rack_type": T33}, REJ, {}),
    ("dispense", {"tip": 0}, REJ, {}),
    ("distribute", {"liquid_class": "Buffer µ", "diti_reuse": 3, "multi_disp": 4, "direction": "right_to_left", "src_rack_id": "S1", "src_rack_type": "ST", "dst_rack_id": "D1", "dst_rack_type": "DT"}, OK,
     {"liquid_class": "Buffer µ", "diti_reuse": 3, "multi_disp": 4, "direction": 1, "src_id": "S1", "src_type": "ST", "dst_id": "D1", "dst_type": "DT", "src_label": "T", "dst_label": "P"}),
    ("distribute", {"multi_disp": 12}, OK, {"multi_disp": 5}),
    ("distribute", {"liquid_class": "x;y"}, REJ, {}),
    ("distribute", {"direction": "down"}, REJ, {}),
    ("distribute", {"dst_rack_type": T33}, REJ, {}),
    ("distribute", {"src_rack_id": "a;b"}, REJ, {}),
]
