"""Helpers shared by the stateful (regime A) harnesses: standard labware sets, the reference reading of
call arguments (broadcast, column-major pairing) and comparison of the interpreter with the Labware."""
from fractions import Fraction

from ..ref.numbering import flat_f, well_id
from ..world import default_component_names, geo_of, plate, ref_vols, ref_wells, trough

# ---------------------------------------------------------------- standard labware sets (DESIGN section 4)


from ..world import plate as plate, trough as trough  # noqa: E402,F401


def W1():
    return [
        dict(plate("P", 2, 3, 10, 200, [[100, 100, 100], [100, 100, 100]]), np=True),
        plate("Q", 3, 2, 0, 150, 0),
        dict(trough("T", 3, 2, 20, 1000, [500, 300]), np=True),
    ]


def W2():
    return [
        plate("A", 1, 2, 0, 200, [[100, 50]]),
        plate("B", 2, 1, 5, 120, [[0], [60]]),
        dict(trough("S", 1, 1, 10, 500, 400), generic=True),
    ]


def W3():
    return [
        plate("P", 2, 3, 10, 100, 90),
        plate("Q", 3, 2, 0, 60, [[0, 40], [10, 0], [55, 0]]),
        dict(trough("T", 3, 2, 20, 400, [95, 35]), generic=True),
    ]


def W4():
    """large geometries: two-digit columns, rows beyond H, many virtual rows"""
    return [
        plate("P", 8, 12, 0, 2000, 500),
        plate("Q", 16, 24, 0, 200, 0),
        trough("T", 8, 3, 100, 100000, [50000, 40000, 30000]),
    ]


def W5():
    """extreme geometries: three-digit columns, 26 rows, 26 virtual rows, single-well labware"""
    return [
        plate("P", 2, 101, 0, 2000, 500),
        plate("Q", 26, 2, 0, 200, 0),
        trough("T", 26, 1, 100, 100000, 50000),
        plate("U", 1, 1, 0, 500, 250),
    ]


def W6():
    """large vessels next to a small plate: limits that are crossed by tenths of a microlitre"""
    return [
        plate("P", 2, 3, 10, 200, 100),
        trough("T", 3, 2, 20000, 100000, [20000.5, 99999.5]),
    ]


def other_device_looks(W, device_cls):
    """A user who also prepares the same deck for the other device: the public numbering helper of the *other* device
    is asked for every well of every labware of the world (nothing is pipetted).  Must not influence anything."""
    from robotools.evotools.utils import get_well_position as evo_pos
    from robotools.fluenttools.utils import get_well_position as fluent_pos

    fn = fluent_pos if device_cls == "EvoWorklist" else evo_pos
    for lw in W["lw"].values():
        for w in lw.wells.flatten():
            fn(lw, str(w))


def make_worklist(cls, max_volume=950, auto_split=True, diti_mode=False):
    """A worklist of the named class.  "Worklist" is the deprecated alias of EvoWorklist; a suffix selects how the
    arguments are handed over: ":pos" all positional (filepath, max_volume, auto_split, diti_mode), ":mixed" two
    positional and two by keyword, otherwise all by keyword."""
    import warnings

    from ..world import rt

    name, _, form = cls.partition(":")
    with warnings.catch_warnings():
        warnings.simplefilter("ignore", DeprecationWarning)
        if form == "pos":
            return getattr(rt, name)(None, max_volume, auto_split, diti_mode)
        if form == "mixed":
            return getattr(rt, name)(None, max_volume, diti_mode=diti_mode, auto_split=auto_split)
        return getattr(rt, name)(max_volume=max_volume, auto_split=auto_split, diti_mode=diti_mode)


def jdump(x):
    import json

    return json.dumps(x, sort_keys=True, default=str)


def vandalize_helpers(R, C):
    """What a caller does to the objects the public helpers hand out is its own business: request the index
    dictionary and the well-ID array of an R x C plate and overwrite them.  Later results must not change."""
    from ..world import rt

    d, a = rt.make_well_index_dict(R, C), rt.make_well_array(R, C)
    d.clear()
    d["A01"] = (R - 1, C - 1)
    d["Z99"] = (0, 0)
    a[...] = "X00"


LIFETIME_ROWS = [2, 3, 4, 6, 8, 5]


def lifetime_scenario(worklists, wells, check, rounds=16, pool_size=6):
    """Worklist objects that outlive the labware they were used with.  Every round builds `pool_size` pairs of
    labware "S" (plate or trough) / "D" (plate) whose row counts rotate from round to round, transfers 10 uL
    between the given wells on every worklist, hands the records to check(records_by_worklist, geo_S, geo_D)
    and drops the labware, so that later labware objects re-use their memory.  Returns the first problem or None.
    (Deterministic for code that holds the property; for code that keys hidden state on object identity the
    round in which it shows depends on memory re-use, which is why the description names no round.)"""
    from ..ref.numbering import Geo
    from ..world import rt

    for i in range(rounds):
        pool = []
        for k in range(pool_size):
            R = LIFETIME_ROWS[(i + k) % len(LIFETIME_ROWS)]
            is_trough = (i + k) % 2 == 1
            if is_trough:
                s = rt.Trough("S", R, 3, min_volume=0, max_volume=1e6, initial_volumes=[1000, 1000, 1000])
            else:
                s = rt.Labware("S", R, 3, min_volume=0, max_volume=1e6, initial_volumes=1000)
            d = rt.Labware("D", R, 3, min_volume=0, max_volume=1e6)
            pool.append((s, d, Geo("S", "trough" if is_trough else "plate", R, 3), Geo("D", "plate", R, 3)))
        for s, d, gs, gd in pool:
            recs = {}
            for name, wl in worklists.items():
                del wl[:]
                wl.transfer(s, wells, d, wells, 10)
                recs[name] = list(wl)
                del wl[:]
            problem = check(recs, gs, gd)
            if problem:
                return problem
        del pool, s, d
    return None


def callers_arrays_unchanged(W, config):
    """arrays the 'caller' handed to the constructors (spec np=True / share=tag) still hold the initial values"""
    bad = []
    for s in config["labware"]:
        key = "caller:" + s["name"] if s.get("np") else s.get("share")
        if key is None or key not in W.get("shared", {}):
            continue
        import numpy as np

        if not np.array_equal(W["shared"][key].astype(float), np.array(s["init"], dtype=W["shared"][key].dtype).astype(float)):
            bad.append(f"the initial_volumes array handed to {s['name']} was modified: {W['shared'][key].tolist()} (given {s['init']})")
    return bad


def spec_of(config, name):
    return next(s for s in config["labware"] if s["name"] == name)


def geos(config):
    return {s["name"]: geo_of(s) for s in config["labware"]}


# ---------------------------------------------------------------- reference reading of arguments


def bcast(lists):
    """singleton arguments broadcast to the longest; None if incompatible"""
    n = max(len(x) for x in lists)
    out = []
    for x in lists:
        if len(x) == 1:
            x = x * n
        if len(x) != n:
            return None
        out.append(x)
    return out


def pairs_wells_vols(config, lwname, wells, vols):
    """[(real cell, Fraction volume)] in call order for add/remove/aspirate/dispense; None if not pairable"""
    g = geo_of(spec_of(config, lwname))
    ws = flat_f(ref_wells(wells, config))
    vs = flat_f(ref_vols(vols))
    if len(vs) == 1:
        vs = vs * len(ws)
    if len(vs) != len(ws):
        return None
    return [(g.real(w), Fraction(v)) for w, v in zip(ws, vs)]


def triples(config, src, sw, dst, dw, vols):
    """[(src cell, dst cell, Fraction volume)] for a transfer; None if lengths are incompatible"""
    gs, gd = geo_of(spec_of(config, src)), geo_of(spec_of(config, dst))
    b = bcast([flat_f(ref_wells(sw, config)), flat_f(ref_wells(dw, config)), flat_f(ref_vols(vols))])
    if b is None:
        return None
    return [(gs.real(s), gd.real(d), Fraction(v)) for s, d, v in zip(*b)]


def agg(flows):
    out = {}
    for k, v in flows:
        out[k] = out.get(k, Fraction(0)) + v
    return {k: v for k, v in out.items() if v != 0}


# ---------------------------------------------------------------- comparison robot <-> Labware


def origin_names(config, W):
    """{origin: component name}; unspecified default names are read from the implementation's initial state"""
    out = {}
    for s in config["labware"]:
        names = default_component_names(s)
        for (r, c), n in names.items():
            if n is None:
                lw = W["lw"][s["name"]]
                # which component is 100 % in this well initially
                cands = [k for k, a in lw.composition.items() if a[r, c] == 1]
                n = cands[0] if len(cands) == 1 else f"?unnamed:{s['name']}:{r},{c}"
            out[f"{s['name']}:{r},{c}"] = n
    return out


def compare_robot(robot, W, config, names, exact=True, check_comp=True):
    """list of (clause suffix, detail) where the interpreter and the Labware objects disagree"""
    bad = []
    for s in config["labware"]:
        n = s["name"]
        lw = W["lw"][n]
        vol = lw.volumes
        comp = lw.composition
        for cell, rv in robot.vol[n].items():
            fv = float(vol[cell])
            if fv != fv:
                bad.append(("volume", f"{n}{cell}: Labware reports NaN"))
                continue
            lv = Fraction(fv)
            tol = 0 if exact else Fraction(5, 1000) * robot.touch[n][cell] + Fraction(1, 10**9)
            if abs(lv - rv) > tol:
                bad.append(("volume", f"{n}.{well_id(*cell)}: robot {float(rv)} vs Labware {fv}"))
                continue
            if not check_comp or rv <= 0:
                continue
            mix = robot.mix[n][cell]
            if "?" in mix:
                continue
            exp = {}
            for o, a in mix.items():
                nm = names.get(o, o)
                exp[nm] = exp.get(nm, Fraction(0)) + a / rv
            for nm in set(exp) | set(comp):
                e = float(exp.get(nm, 0))
                got = float(comp[nm][cell]) if nm in comp else 0.0
                if not abs(got - e) <= (1e-9 if exact else 1e-4):
                    bad.append(("composition", f"{n}.{well_id(*cell)} '{nm}': robot {e} vs Labware {got}"))
    return bad


class BaseA:
    """common parts of the stateful harnesses"""

    regime = "A"
    tier = "quick"

    def replay(self, case):
        clear_caches()
        cfg = case["config"]
        W = self.init(cfg)
        out = []
        for ev in case["events"]:
            res = self.step(W, ev, cfg)
            out = res.get("violations", [])
        return [[c, str(d)] for c, d in out]


_CACHED = None


def clear_caches():
    """Reset every functools cache and module-level dict/list cache-like object of robotools, so that each case
    starts from the same hidden state (long-lived workers would otherwise make outcomes order-dependent)."""
    global _CACHED
    import sys

    if _CACHED is None:
        _CACHED = []
        for name, mod in list(sys.modules.items()):
            if not name.startswith("robotools") or mod is None:
                continue
            for attr, obj in list(vars(mod).items()):
                if callable(getattr(obj, "cache_clear", None)):
                    _CACHED.append(("fn", obj))
                elif isinstance(obj, (dict, set)) and attr.startswith("_") and not attr.startswith("__") and len(obj) == 0:
                    # private module-level containers that are empty at import time are treated as caches
                    _CACHED.append(("container", obj))
                elif isinstance(obj, type) and getattr(obj, "__module__", "").startswith("robotools"):
                    # class-level containers (shared by all instances) that are empty at import time
                    for cattr, cobj in list(vars(obj).items()):
                        if isinstance(cobj, (dict, set, list)) and not cattr.startswith("__") and len(cobj) == 0:
                            _CACHED.append(("container", cobj))
                        elif callable(getattr(cobj, "cache_clear", None)):
                            _CACHED.append(("fn", cobj))
    for kind, obj in _CACHED:
        if kind == "fn":
            obj.cache_clear()
        elif isinstance(obj, list):
            del obj[:]
        else:
            obj.clear()


class BaseB:
    """common parts of the input-lattice harnesses: run_chunk(chunk, stats) enumerates cases and calls
    self.one(case) -> (outcome, nontrivial_key or None, [(clause, detail)]).

    Hidden state between calls is owned explicitly: caches are cleared at the start of every chunk, and a
    violation that does not reproduce in isolation is re-examined as a *sequence* (predecessor, case)."""

    regime = "B"
    tier = "quick"
    SEQ_WINDOW = 400
    MAX_SEQ_INVESTIGATIONS = 3

    def _clear(self):
        clear_caches()
        self.after_clear()

    def after_clear(self):
        """hook: what a harness wants done whenever the hidden state has been reset (e.g. a caller that overwrites
        the objects the public helpers hand out)"""

    def run_chunk(self, chunk, st):
        self._clear()
        prev = []
        investigated = 0
        for case in self.cases(chunk):
            outcome, key, viol = self.one(case)
            if viol:
                # does it depend on what ran before?
                self._clear()
                o2, k2, v2 = self.one(case)
                if sorted(c for c, _ in v2) != sorted(c for c, _ in viol):
                    investigated += 1
                    if investigated > self.MAX_SEQ_INVESTIGATIONS:
                        # enough replayable examples from this chunk; the rest is only counted
                        st.extra["order_dependent_not_investigated"] += 1
                        continue
                    seq = None
                    for pred in reversed(prev[-self.SEQ_WINDOW :]):
                        self._clear()
                        self.one(pred)
                        o3, k3, v3 = self.one(case)
                        if sorted(c for c, _ in v3) == sorted(c for c, _ in viol):
                            seq = [pred, case]
                            break
                    if seq is None:
                        seq = list(prev) + [case]  # the whole history of this chunk
                    st.case(outcome + ":order-dependent", {"$seq": seq}, key)
                    for clause, detail in viol:
                        st.violation(clause + "/order-dependent", {"$seq": seq}, f"only after {len(seq) - 1} earlier call(s) in the same process: {detail}")
                    self._clear()
                    for c in prev:
                        self.one(c)
                    prev.append(case)
                    continue
            st.case(outcome, case, key)
            for clause, detail in viol:
                st.violation(clause, case, detail)
            prev.append(case)

    def replay(self, case):
        self._clear()
        if isinstance(case, dict) and "$seq" in case:
            for c in case["$seq"][:-1]:
                self.one(c)
            outcome, key, viol = self.one(case["$seq"][-1])
            return [[c + "/order-dependent", str(d)] for c, d in viol]
        outcome, key, viol = self.one(case)
        return [[c, str(d)] for c, d in viol]
