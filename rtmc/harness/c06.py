"""C06 - large-volume handling: splitting is complete, bounded and minimal."""
import math
from fractions import Fraction

from ..ref import gwl
from ..world import fhex, rt
from . import common as cm

from robotools.worklists.utils import partition_volume  # noqa: E402


def fx(x):
    return float.fromhex(x["$hex"]) if isinstance(x, dict) else float(x)


M_INT = [1, 2, 3, 7, 50, 200, 950, 1000]
M_FRAC = [0.5, 2.5, 4.8, 33.3, 199.99, 950.5, 0.1, 0.3]


def volumes_for(m, tier):
    vs = set()
    top = 4000 if tier == "quick" else 4000
    step = 1.0 if tier == "quick" else 0.25
    n = int(top / step)
    for i in range(n + 1):
        vs.add(i * step)
    for k in range(0, 9 if tier == "quick" else 41):
        base = k * m
        for d in (0.0, 0.01, -0.01, 0.25, -0.25, 0.5, -0.5):
            vs.add(base + d)
        vs.add(math.nextafter(base, math.inf))
        vs.add(math.nextafter(base, -math.inf))
    vs |= {0.005, 1 / 3, 1e-9, 0.125, 2.675}
    return sorted(v for v in vs if 0 <= v <= 400 * m)


def allowed_counts(v, m):
    if v == 0:
        return {0}
    ke = max(1, math.ceil(Fraction(v) / Fraction(m)))
    kf = max(1, math.ceil(v / m))
    return {ke, kf}


def dyadic(x):
    return Fraction(x).denominator <= 4 and abs(x) < 2**40


class Harness(cm.BaseB):
    id = "C06"
    rule = (
        "complete grid of (volume, max_volume): integers 0..4000 (thorough: 0.25 steps) x 16 max_volume values "
        "(8 integer, 8 non-integer) plus every multiple k*max_volume +- {0, 1 ulp, 0.01, 0.25, 0.5}; "
        "end-to-end through EvoWorklist/FluentWorklist.transfer with auto_split on and off; "
        "reagent_distribution over a volume x multi_disp x max_volume grid.  non-trivial = the volume had to be "
        "split (>= 2 steps) or multi_disp had to be reduced or the call was refused; distinct = distinct input"
    )
    assumptions = ["in the one-ulp band where exact and floating-point arithmetic disagree about ceil(v/max) or about multi_disp*volume <= max_volume either answer is accepted"]

    def bounds(self, tier):
        return {"max_volume": M_INT + M_FRAC, "volume_max": 4000, "grid_step": 1.0 if tier == "quick" else 0.25}

    def chunks(self, tier):
        out = []
        for m in M_INT + M_FRAC:
            vs = volumes_for(m, tier)
            for i in range(0, len(vs), 2000):
                out.append({"kind": "pv", "m": m, "vs": [fhex(v) for v in vs[i : i + 2000]]})
        for dev in ("EvoWorklist", "FluentWorklist"):
            for m in [50, 4.8, 33.3, 950, 0.5, 7, 0.375, 166.667, 33.335, 2000 / 3]:
                out.append({"kind": "tr", "dev": dev, "m": m})
        # the deprecated alias and other ways of handing the constructor its arguments
        for dev in ("Worklist", "Worklist:pos", "Worklist:mixed", "EvoWorklist:pos", "FluentWorklist:pos", "FluentWorklist:mixed"):
            out.append({"kind": "tr", "dev": dev, "m": 50})
        out.append({"kind": "rd"})
        out.append({"kind": "trseq"})
        out.append({"kind": "trmax"})
        out.append({"kind": "evo"})
        out.append({"kind": "trmulti"})
        return out

    def cases(self, chunk):
        if chunk["kind"] == "pv":
            for v in chunk["vs"]:
                yield {"kind": "pv", "v": v, "m": chunk["m"]}
        elif chunk["kind"] == "tr":
            m = chunk["m"]
            vs = set()
            for k in range(0, 7):
                for d in (0, 0.25, -0.25, 0.01, -0.01):
                    vs.add(k * m + d)
                vs.add(math.nextafter(k * m, math.inf))
                vs.add(math.nextafter(k * m, -math.inf))
            vs |= {0.005, 1 / 3, 7.5, 120, 1000.5}
            for v in sorted(x for x in vs if x >= 0 and x <= 40 * m):
                for asplit in (True, False):
                    yield {"kind": "tr", "dev": chunk["dev"], "v": fhex(v), "m": m, "auto_split": asplit}
        elif chunk["kind"] == "trseq":
            # hidden state between worklists: first an integer-friendly max_volume, then a non-integer one that
            # needs the same number of steps for the same volume (and the reverse order)
            for m1, m2 in ((600, 500.5), (500.5, 600), (50, 33.5), (34, 33.5), (950, 949.5), (5, 4.8), (200, 199.99)):
                for k in (2, 3, 5):
                    for d in (-1, -0.5, 0.25, 1):
                        v = k * min(m1, m2) + d
                        if v > 0:
                            yield {"kind": "trseq", "m1": m1, "m2": m2, "v": fhex(v)}
        elif chunk["kind"] == "trmulti":
            # several triples in one call: neighbouring volumes that differ in the second decimal, one source into
            # several destinations and several sources into one destination with volumes in the opposite order
            for dev in ("EvoWorklist", "FluentWorklist"):
                for m in (950, 50, 33.5):
                    for shape in ("pair", "fan-out", "fan-in", "chain"):
                        for pb in ("auto", "source", "destination"):
                            for k in (1, 2, 3):
                                yield {"kind": "trmulti", "dev": dev, "m": m, "shape": shape, "pb": pb, "k": k}
        elif chunk["kind"] == "evo":
            # EVO script commands: a per-tip step above max_volume is refused with InvalidOperationError as well
            for op in ("evo_aspirate", "evo_dispense"):
                for m in (50, 950, 33.5):
                    for vols in ("scalar_over", "first_over", "last_over", "at_limit", "scalar_at_limit", "ulp_over"):
                        yield {"kind": "evo", "op": op, "m": m, "vols": vols}
        elif chunk["kind"] == "trmax":
            # wl.max_volume is re-assigned on the live worklist between two transfers of the same volume
            for dev in ("EvoWorklist", "FluentWorklist"):
                for m1, m2 in ((950, 400), (400, 950), (50, 33.5), (33.5, 50), (7, 3), (1000, 950), (4.8, 5)):
                    for k in (1, 2, 5):
                        for d in (-1, 0, 0.25):
                            v = k * max(m1, m2) + d
                            if v > 0:
                                for asplit in (True, False):
                                    yield {"kind": "trmax", "dev": dev, "m1": m1, "m2": m2, "v": fhex(v), "auto_split": asplit}
        else:
            for m in (50, 950, 4.8, 1.0, 0.3):
                for v in (0.1, 0.25, 1, 7.5, 10, 25, 50, 50.5, 100, 400, 950, 1200, 0.3, 4.8, 2.4):
                    for md in (1, 2, 3, 6, 10, 12):
                        yield {"kind": "rd", "v": v, "m": m, "md": md}
                        if md in (3, 12) and float(v).is_integer() and v <= 127:
                            # the same volume as a numpy scalar of a small integer dtype (multi_disp * volume must not wrap)
                            yield {"kind": "rd", "v": v, "m": m, "md": md, "vdtype": "uint8" if md == 3 else "int8"}
                        if md in (3, 12):
                            yield {"kind": "rd", "v": v, "m": m, "md": md, "auto_split": False, "cls": "EvoWorklist"}
                            yield {"kind": "rd", "v": v, "m": m, "md": md, "auto_split": False, "cls": "FluentWorklist"}

    def one(self, case):
        return getattr(self, "one_" + case["kind"])(case)

    # -------------------------------------------------------------- the helper itself
    def one_pv(self, case):
        v, m = fx(case["v"]), fx(case["m"])
        V = []
        try:
            res = partition_volume(v, max_volume=m)
        except Exception as e:
            return "pv:raised", None, [("C06/helper-raised", f"partition_volume({v}, max_volume={m}) raised {type(e).__name__}: {e}")]
        # a caller may do what it likes with the list it was handed: the next identical request is unaffected
        first = [float(x) for x in res]
        try:
            res.append(-1.0)
            res[0] = 12345.0
            del res[:]
        except Exception:
            pass
        res = [float(x) for x in partition_volume(v, max_volume=m)]
        if res != first:
            return "pv:aliased", None, [("C06/sum", f"partition_volume({v!r}, max_volume={m}) returned {first[:5]} and, after the caller edited that list, {res[:5]}")]
        allowed = allowed_counts(v, m)
        if len(res) not in allowed:
            V.append(("C06/step-count", f"partition_volume({v!r}, max_volume={m}) -> {len(res)} steps {res[:6]}, expected {sorted(allowed)}"))
        if any(not (0 < s) for s in res):
            V.append(("C06/step-not-positive", f"partition_volume({v!r}, max_volume={m}) -> {res[:8]}"))
        if any(Fraction(s) > Fraction(m) for s in res):
            V.append(("C06/step>max_volume", f"partition_volume({v!r}, max_volume={m}) -> {res[:8]}"))
        tot = sum(Fraction(s) for s in res)
        # exact whenever every step is itself a multiple of 0.25 (the integer-valued path); otherwise the
        # steps are quotients that are not representable and "add up to v" is read at float precision
        if dyadic(v) and all(dyadic(s) for s in res):
            if tot != Fraction(v):
                V.append(("C06/sum", f"partition_volume({v!r}, max_volume={m}) sums to {float(tot)!r}"))
        elif abs(tot - Fraction(v)) > Fraction(1, 10**9) * max(1, Fraction(v)):
            V.append(("C06/sum", f"partition_volume({v!r}, max_volume={m}) sums to {float(tot)!r}"))
        return f"pv:{min(len(res), 5)}steps", (f"pv{v!r}/{m}" if len(res) > 1 else None), V

    # -------------------------------------------------------------- end to end
    def one_trmulti(self, case):
        m, k = case["m"], case["k"]
        if case["shape"] == "pair":
            sw, dw, vols = ["A01", "B01", "C01"], ["A01", "B01", "C01"], [k * m, k * m + 0.01, k * m - 0.01]
        elif case["shape"] == "fan-out":
            sw, dw, vols = ["A01", "A01", "A01"], ["A01", "A02", "A03"], [2.5 * m + k, 0.7 * m, 1.3 * m + 0.25]
        elif case["shape"] == "fan-in":
            sw, dw, vols = ["C01", "B01", "A01"], ["B02", "B02", "B02"], [0.7 * m, 2.5 * m + k, 1.3 * m + 0.25]
        else:
            sw, dw, vols = ["A01", "A02", "B01", "B02"], ["B03", "A03", "B03", "C03"], [k * m + 0.5, 0.5 * m, 3 * m, k * m + 0.75]
        vols = [round(v, 2) for v in vols]
        src = rt.Labware("S", 3, 3, min_volume=0, max_volume=1e9, initial_volumes=1e8)
        dst = rt.Labware("D", 3, 3, min_volume=0, max_volume=1e9)
        wl = getattr(rt, case["dev"])(max_volume=m, auto_split=True)
        try:
            wl.transfer(src, sw, dst, dw, vols, partition_by=case["pb"])
        except Exception as e:
            return "trmulti:raised", f"trmulti{case}", [("C06/auto-split-transfer-refused", f"transfer({sw}, {dw}, {vols}) with max_volume={m} raised {type(e).__name__}: {e}")]
        from ..ref.numbering import Geo

        g = Geo("S", "plate", 3, 3)
        P = [gwl.parse(r) for r in wl]
        ad = [p for p in P if p["kind"] in "AD"]
        V = []
        flows = {}
        for a, d in zip(ad[0::2], ad[1::2]):
            if a["kind"] != "A" or d["kind"] != "D" or a["volume"] != d["volume"]:
                V.append(("C06/pair-count", f"records are not aspirate/dispense pairs: {a['raw']!r} {d['raw']!r}"))
                break
            if a["volume"] > Fraction(m) + Fraction(5, 1000) or a["volume"] <= 0:
                V.append(("C06/step>max_volume", f"{a['raw']!r} with max_volume={m}"))
            key = (g.decode("evo", a["position"]), g.decode("evo", d["position"]))
            flows.setdefault(key, []).append(a["volume"])
        want = {}
        for s_, d_, v in zip(sw, dw, vols):
            want.setdefault((g.real(s_), g.real(d_)), []).append(Fraction(v))
        for key, vs in want.items():
            got = flows.get(key, [])
            tot, n_allowed = sum(vs), set()
            if abs(sum(got) - tot) > Fraction(5, 1000) * max(1, len(got)):
                V.append(("C06/sum", f"transfer({sw}, {dw}, {vols}) with max_volume={m}: {key} received {float(sum(got))} in steps {[float(x) for x in got]}, requested {float(tot)}"))
            elif len(vs) == 1:
                if len(got) not in allowed_counts(float(vs[0]), m):
                    V.append(("C06/pair-count", f"transfer({sw}, {dw}, {vols}) with max_volume={m}: {float(vs[0])} for {key} was emitted in {len(got)} steps, expected {sorted(allowed_counts(float(vs[0]), m))}"))
        if set(flows) - set(want):
            V.append(("C06/sum", f"transfer({sw}, {dw}, {vols}): records between wells that were not requested: {sorted(set(flows) - set(want))}"))
        return "trmulti:ok", f"trmulti{case}", V

    def one_evo(self, case):
        m = case["m"]
        over = math.nextafter(m, math.inf) if case["vols"] == "ulp_over" else m + 0.5
        vols = {"scalar_over": over, "first_over": [over, 10.0], "last_over": [10.0, over], "at_limit": [m, 10.0], "scalar_at_limit": m, "ulp_over": [10.0, over]}[case["vols"]]
        oversized = case["vols"] not in ("at_limit", "scalar_at_limit")
        lw = rt.Labware("L", 4, 2, min_volume=0, max_volume=1e6, initial_volumes=1e4 if case["op"] == "evo_aspirate" else 0)
        wl = rt.EvoWorklist(max_volume=m)
        exc = None
        try:
            getattr(wl, case["op"])(lw, ["A01", "B01"], (30, 2), [1, 2], vols, "LC")
        except Exception as e:
            exc = e
        name = type(exc).__name__ if exc else "ok"
        V = []
        if oversized:
            if name != "InvalidOperationError":
                V.append(("C06/oversized-not-refused", f"{case['op']}(volumes={vols}) with max_volume={m} -> {name}"))
            if len(wl):
                V.append(("C06/oversized-not-refused", f"{case['op']}(volumes={vols}) with max_volume={m} left records {list(wl)}"))
        elif exc is not None:
            V.append(("C06/fitting-step-refused", f"{case['op']}(volumes={vols}) with max_volume={m} raised {name}"))
        return f"evo:{case['vols']}:{name}", f"evo{case}", V

    def one_trmax(self, case):
        """the same worklist object, the same volume, max_volume assigned in between: the limit that counts is
        the one the worklist has when the transfer is requested"""
        wl = getattr(rt, case["dev"])(max_volume=case["m1"], auto_split=case["auto_split"])
        o1, k1, V1 = self.one_tr({"kind": "tr", "dev": case["dev"], "v": case["v"], "m": case["m1"], "auto_split": case["auto_split"]}, wl=wl)
        del wl[:]
        wl.max_volume = case["m2"]
        o2, k2, V2 = self.one_tr({"kind": "tr", "dev": case["dev"], "v": case["v"], "m": case["m2"], "auto_split": case["auto_split"]}, wl=wl)
        V = V1 + [(c, f"after wl.max_volume = {case['m2']} (was {case['m1']}) on the live worklist: {d}") for c, d in V2]
        # ... and the assigned limit stays in force after break records (the split transfer above, an explicit commit)
        del wl[:]
        wl.commit()
        del wl[:]
        o3, k3, V3 = self.one_tr({"kind": "tr", "dev": case["dev"], "v": case["v"], "m": case["m2"], "auto_split": case["auto_split"]}, wl=wl)
        V += [(c, f"after wl.max_volume = {case['m2']} (was {case['m1']}), a transfer and commit(): {d}") for c, d in V3]
        return f"trmax:{o1}:{o2}:{o3}", f"trmax{case}", V

    def one_tr(self, case, wl=None):
        v, m = fx(case["v"]), case["m"]
        src = rt.Labware("S", 2, 2, min_volume=0, max_volume=1e9, initial_volumes=1e8)
        dst = rt.Labware("D", 2, 2, min_volume=0, max_volume=1e9)
        if wl is None:
            wl = cm.make_worklist(case["dev"], max_volume=m, auto_split=case["auto_split"])
        V = []
        exc = None
        try:
            wl.transfer(src, "B01", dst, "A02", v)
        except Exception as e:
            exc = e
        name = type(exc).__name__ if exc else "ok"
        if case["auto_split"]:
            if exc is not None:
                V.append(("C06/auto-split-transfer-refused", f"transfer of {v!r} with max_volume={m} raised {name}: {exc}"))
                return f"tr:split:{name}", f"tr{case}", V
            try:
                ps = [gwl.parse(r) for r in wl]
            except gwl.ParseError as e:
                return "tr:unparsable", None, [("C06/unparsable", str(e))]
            a = [p for p in ps if p["kind"] == "A"]
            d = [p for p in ps if p["kind"] == "D"]
            allowed = allowed_counts(v, m)
            if round(v, 2) == 0 and len(a) in (0, 1):
                pass
            elif len(a) not in allowed or len(d) != len(a):
                V.append(("C06/pair-count", f"transfer of {v!r} with max_volume={m}: {len(a)} A / {len(d)} D records, expected {sorted(allowed)}"))
            for p in a + d:
                if p["volume"] > Fraction(m) + Fraction(5, 1000):
                    V.append(("C06/step>max_volume", f"{p['raw']!r} exceeds max_volume={m}"))
            tot = sum(p["volume"] for p in a)
            if abs(tot - Fraction(v)) > Fraction(5, 1000) * max(1, len(a)) + Fraction(1, 10**9):
                V.append(("C06/sum", f"transfer of {v!r} with max_volume={m}: records add up to {float(tot)}"))
            if abs(Fraction(float(dst.volumes[0, 1])) - Fraction(v)) > Fraction(1, 10**6):
                V.append(("C06/sum", f"destination received {dst.volumes[0, 1]!r} instead of {v!r}"))
            return f"tr:split:{min(len(a), 5)}pairs", (f"tr{case}" if len(a) > 1 else None), V
        # auto_split off
        if Fraction(v) > Fraction(m):
            if exc is None or type(exc).__name__ != "InvalidOperationError":
                V.append(("C06/oversized-not-refused", f"auto_split off: transfer of {v!r} with max_volume={m} -> {name}"))
            elif len(wl):
                V.append(("C06/oversized-not-refused", f"auto_split off: records were emitted before the refusal: {list(wl)}"))
            return f"tr:nosplit:{name}", f"tr{case}", V
        if exc is not None:
            V.append(("C06/fitting-step-refused", f"auto_split off: transfer of {v!r} <= max_volume={m} raised {name}"))
        return f"tr:nosplit:{name}", None, V

    def one_trseq(self, case):
        cm.clear_caches()
        out = []
        for dev, m in (("EvoWorklist", case["m1"]), ("FluentWorklist", case["m2"]), ("EvoWorklist", case["m2"])):
            o, key, V = self.one_tr({"kind": "tr", "dev": dev, "v": case["v"], "m": m, "auto_split": True})
            out += [(c + "/order-dependent", f"after the same volume on a worklist with max_volume={case['m1']}: {d}") for c, d in V]
        return "trseq", f"trseq{case}", out

    # -------------------------------------------------------------- reagent distribution
    def one_rd(self, case):
        v, m, md = case["v"], case["m"], case["md"]
        wl = getattr(rt, case.get("cls", "BaseWorklist"))(max_volume=m, auto_split=case.get("auto_split", True))
        V = []
        if case.get("vdtype"):
            import numpy as np

            vcall = np.dtype(case["vdtype"]).type(v)
        else:
            vcall = v
        try:
            wl.reagent_distribution("S", 1, 8, "D", 1, 12, volume=vcall, multi_disp=md)
        except Exception as e:
            name = type(e).__name__
            if not (Fraction(v) > Fraction(m) and name == "InvalidOperationError"):
                V.append(("C06/distribution-refused", f"reagent_distribution(volume={v}, multi_disp={md}) with max_volume={m} raised {name}: {e}"))
            if len(wl):
                V.append(("C06/distribution-refused", "record emitted despite refusal"))
            return f"rd:{name}", f"rd{case}", V
        if Fraction(v) > Fraction(m):
            V.append(("C06/oversized-not-refused", f"reagent_distribution(volume={v}) with max_volume={m} was accepted"))
        # plate-wide protocols repeat the same distribution on the same worklist: every record is planned alike
        first = wl[-1]
        for rep in range(2):
            try:
                wl.reagent_distribution("S", 1, 8, "D", 1, 12, volume=vcall, multi_disp=md)
            except Exception as e:
                V.append(("C06/distribution-refused", f"repetition {rep + 2} of reagent_distribution(volume={v}, multi_disp={md}) with max_volume={m} raised {type(e).__name__}"))
                break
            if wl[-1] != first:
                first = wl[-1]  # judged below
                V.append(("C06/multi_disp", f"repetition {rep + 2} of the same distribution on the same worklist emitted {wl[-1]!r}, the first call {wl[0]!r}"))
                break
        try:
            p = gwl.parse(first)
            got = p["multi_disp"]
        except Exception as e:
            return "rd:unparsable", None, [("C06/unparsable", str(e))]

        def fits(k):  # exact or float arithmetic may decide in the one-ulp band
            return Fraction(k) * Fraction(v) <= Fraction(m), k * v <= m

        if got > md or got < 1:
            V.append(("C06/multi_disp", f"volume={v} multi_disp={md} max_volume={m}: emitted multi_disp {got}"))
        elif not any(fits(got)):
            V.append(("C06/multi_disp*volume>max_volume", f"volume={v} multi_disp={md} max_volume={m}: emitted {got}"))
        elif got < md and all(fits(got + 1)):
            V.append(("C06/multi_disp-reduced-too-far", f"volume={v} multi_disp={md} max_volume={m}: emitted {got} although {got + 1} fit"))
        return f"rd:{'reduced' if got < md else 'kept'}", (f"rd{case}" if got < md else None), V
