"""C14 - a DilutionPlan is self-consistent and executable as planned."""
import itertools
from fractions import Fraction

import numpy as np

from ..world import rt
from . import common as cm

RS = [1, 2, 3, 8]
CS = [1, 2, 3, 4, 5, 6, 12]
CONC = [(0.001, 10, 10), (0.01, 10, 20), (0.3, 30, 30), (1, 100, 100), (5, 10, 500), (5, 10, 10), (1, 123, 123), (0.2, 1, 1), (0.2, 1, 10), (1, 10, 12), (1, 1e10, 1e10), (0.5, 2e8, 1e9), (10, 10, 30), (5, 5.5, 16), (1e-4, 1e12, 1e12)]
VMAX = [100, 500, 1000, "ramp", 150.5, 99.75, "down"]
MINT = [1, 2.5, 10, 10.25, 20, 50]


def vmax_of(v, C):
    if v == "ramp":
        return [200 + 100 * c for c in range(C)]
    if v == "down":
        return [1000] + [100] * (C - 1)  # one large column, small ones behind it
    return v


class Harness(cm.BaseB):
    id = "C14"
    rule = (
        "complete grid R {1,2,3,8} x C {1,2,3,4,5,6,12} x mode {log,linear} x 15 (xmin,xmax,stock) triples (xmin = xmax, ranges up to "
        "ten orders of magnitude) x vmax {100, 500, 1000, per-column ramp, 150.5, 99.75, one large column followed by small ones} x min_transfer {1,2.5,10,10.25,20,50} = 35280 "
        "constructor calls (thorough adds R {4,16}, C {8,24}); concentrations compared at 1e-9 relative; "
        "every returned plan is re-derived from its instructions in exact arithmetic and executed with to_worklist on "
        "EvoWorklist and FluentWorklist x worklist max_volume {950,200} x destination plate yes/no x mix_repeat {0,2}, "
        "with stock/diluent troughs that have fewer or more virtual rows than R and use a non-zero column "
        "(quick: execution for R*C <= 24, two of the four set-ups per plan in rotation).  non-trivial = a plan was returned; distinct = distinct parameter set"
    )
    assumptions = ["a destination-plate transfer is only requested when every column keeps enough volume for it; mixing aspirates and dispenses into the same well and needs no budget"]

    def bounds(self, tier):
        return {"R": RS + ([4, 16] if tier != "quick" else []), "C": CS + ([8, 24] if tier != "quick" else []), "execute_max_wells": 24 if tier == "quick" else 384}

    def chunks(self, tier):
        Rs = RS + ([4, 16] if tier != "quick" else [])
        Cs = CS + ([8, 24] if tier != "quick" else [])
        return [{"R": R, "C": C, "exec": tier != "quick" or R * C <= 24} for R in Rs for C in Cs]

    def cases(self, chunk):
        for mode in ("log", "linear"):
            for ci in range(len(CONC)):
                for vi in range(len(VMAX)):
                    for mt in MINT:
                        yield {"R": chunk["R"], "C": chunk["C"], "mode": mode, "conc": ci, "vmax": vi, "mt": mt, "exec": chunk["exec"]}

    def one(self, case):
        R, C = case["R"], case["C"]
        xmin, xmax, stock = CONC[case["conc"]]
        vmax = vmax_of(VMAX[case["vmax"]], C)
        mt = case["mt"]
        what = f"DilutionPlan(xmin={xmin}, xmax={xmax}, R={R}, C={C}, stock={stock}, mode={case['mode']!r}, vmax={VMAX[case['vmax']]}, min_transfer={mt})"
        try:
            plan = rt.DilutionPlan(xmin=xmin, xmax=xmax, R=R, C=C, stock=stock, mode=case["mode"], vmax=vmax, min_transfer=mt)
        except ValueError:
            return "infeasible:ValueError", None, []
        except Exception as e:
            return "raised", None, [("C14/wrong-exception", f"{what}: {type(e).__name__}: {e}")]
        V = []
        vm = [Fraction(v) for v in (vmax if isinstance(vmax, list) else [vmax] * C)]
        ins = plan.instructions
        # --- re-derivation from the instructions alone
        if sorted(i[0] for i in ins) != list(range(C)):
            V.append(("C14/partial-plan", f"{what}: columns prepared {[i[0] for i in ins]}"))
            return "plan:partial", repr(case), V
        x = {}
        steps = {}
        drawn = {c: [Fraction(0)] * R for c in range(C)}
        v_stock = Fraction(0)
        prepared = set()
        for c, dsteps, src, vt in ins:
            vt = [Fraction(float(v)) for v in np.asarray(vt).tolist()]
            if len(vt) != R:
                V.append(("C14/volumes", f"{what}: column {c} has {len(vt)} volumes"))
                return "plan:bad", repr(case), V
            if any(v.denominator != 1 for v in vt):
                V.append(("C14/not-whole-microlitres", f"{what}: column {c}: {[float(v) for v in vt]}"))
            if any(v < mt for v in vt):
                V.append(("C14/below-min-transfer", f"{what}: column {c}: {[float(v) for v in vt]}"))
            if any(v > vm[c] for v in vt):
                V.append(("C14/above-vmax", f"{what}: column {c}: {[float(v) for v in vt]} > {float(vm[c])}"))
            if isinstance(src, str):
                if src != "stock":
                    V.append(("C14/source", f"{what}: column {c} prepared from {src!r}"))
                x[c] = [v / vm[c] * Fraction(stock) for v in vt]
                steps[c] = 0
                v_stock += sum(vt)
            else:
                src = int(src)
                if src not in prepared:
                    V.append(("C14/source-not-prepared-earlier", f"{what}: column {c} is prepared from column {src} which is not prepared before it"))
                    return "plan:bad", repr(case), V
                x[c] = [v / vm[c] * xs for v, xs in zip(vt, x[src])]
                steps[c] = steps[src] + 1
                drawn[src] = [a + b for a, b in zip(drawn[src], vt)]
            if dsteps != steps[c]:
                V.append(("C14/dilution-steps", f"{what}: column {c} reports {dsteps} dilution steps, instructions imply {steps[c]}"))
            prepared.add(c)
        for c in range(C):
            if any(d > vm[c] for d in drawn[c]):
                V.append(("C14/overdraws-column", f"{what}: {float(max(drawn[c]))} uL are drawn from column {c} which holds {float(vm[c])} uL"))
        px = np.asarray(plan.x, dtype=float)
        if px.shape != (R, C):
            V.append(("C14/concentrations", f"{what}: x has shape {px.shape}"))
        else:
            for c in range(C):
                for r in range(R):
                    e = float(x[c][r])
                    if not abs(px[r, c] - e) <= 1e-9 * abs(e):
                        V.append(("C14/concentrations", f"{what}: x[{r},{c}] = {px[r, c]!r}, instructions imply {e!r}"))
                        break
        if Fraction(float(plan.v_stock)) != v_stock:
            V.append(("C14/v_stock", f"{what}: reports {plan.v_stock}, instructions imply {float(v_stock)}"))
        if Fraction(float(plan.v_diluent)) != sum(vm) * R - v_stock:
            V.append(("C14/v_diluent", f"{what}: reports {plan.v_diluent}, expected {float(sum(vm) * R - v_stock)}"))
        if plan.max_steps != max(steps.values()):
            V.append(("C14/max_steps", f"{what}: reports {plan.max_steps}, instructions imply {max(steps.values())}"))
        if not V and case["exec"]:
            # quick tier: two of the four execution set-ups per plan, rotating with the parameter indices
            pick = None if getattr(self, "tier", "quick") != "quick" else (case["conc"] + case["vmax"] + MINT.index(case["mt"]) + R) % 2
            V += self.execute(plan, what, R, C, stock, vm, x, v_stock, drawn, pick)
        return "plan", repr(case), V

    def execute(self, plan, what, R, C, stock, vm, x, v_stock, drawn, pick=None):
        V = []
        slack = min(float(vm[c] - max(drawn[c])) for c in range(C))
        combos = [("EvoWorklist", 950, False, 2, R + 1, False), ("FluentWorklist", 200, True, 0, max(1, R - 1), False), ("FluentWorklist", 950, True, 2, 1, True), ("EvoWorklist", 200, False, 0, R, True)]
        if pick is not None:
            combos = combos[pick::2]
        import copy
        import pickle

        original = plan
        for dev, maxv, with_dest, mix_repeat, vrows, one_trough in combos:
            # the plan object that is executed: as constructed / after a pickle round trip / a deep copy / a shallow copy
            plan = {950: {False: original, True: copy.deepcopy(original)}, 200: {False: copy.copy(original), True: pickle.loads(pickle.dumps(original))}}[maxv][with_dest]
            with_dest = with_dest and slack >= 1
            how = "as constructed" if plan is original else "after copy / deepcopy / pickle round trip"
            tag = f"{what} ({how}) executed on {dev}(max_volume={maxv}), destination={with_dest}, mix_repeat={mix_repeat}, trough rows={vrows}, one trough={one_trough}"
            st = rt.Trough("stocks", vrows, 2, min_volume=0, max_volume=1e7, initial_volumes=[1000.0, 1e6], column_names=["other", "analyte"])
            di = rt.Trough("diluent", max(1, vrows - 1) if vrows > 1 else 2, 3, min_volume=0, max_volume=1e7, initial_volumes=[0, 0, 1e6], column_names=[None, None, "buffer"])
            if one_trough:
                # stock and diluent are two columns of one and the same trough
                st = di = rt.Trough("reagents", vrows, 3, min_volume=0, max_volume=1e7, initial_volumes=[1000.0, 1e6, 1e6], column_names=["other", "analyte", "buffer"])
            plate = rt.Labware("dil", R, C, min_volume=0, max_volume=1e5)
            dest = rt.Labware("dest", R, C, min_volume=0, max_volume=1e5) if with_dest else None
            wl = getattr(rt, dev)(max_volume=maxv)
            try:
                extra = {}
                hooked = []
                if one_trough:
                    # other mixing parameters, and hooks that hand a different worklist object back
                    wl2 = getattr(rt, dev)(max_volume=maxv)
                    extra = dict(
                        mix_threshold=0.5, mix_wash="flush", mix_volume=0.5,
                        pre_mix_hook=lambda col, w: hooked.append(("pre", col)) or None,
                        post_mix_hook=lambda col, w: hooked.append(("post", col)) or (wl2 if col == 0 else None),
                    )
                plan.to_worklist(
                    worklist=wl, stock=st, stock_column=1, diluent=di, diluent_column=2, dilution_plate=plate,
                    destination_plate=dest, v_destination=1.0 if with_dest else None, mix_repeat=mix_repeat, **extra,
                )
                if one_trough and [h for h in hooked if h[0] == "pre"] != [("pre", i[0]) for i in plan.instructions]:
                    V.append(("C14/not-executable", f"{tag}: pre_mix_hook calls {hooked}"))
            except Exception as e:
                V.append(("C14/not-executable", f"{tag}: {type(e).__name__}: {e}"))
                continue
            comp = plate.composition.get("analyte")
            for c in range(C):
                for r in range(R):
                    got = (float(comp[r, c]) if comp is not None else 0.0) * stock
                    e = float(x[c][r])
                    if not abs(got - e) <= 1e-9 * abs(e):
                        V.append(("C14/executed-concentration", f"{tag}: well ({r},{c}) holds {got!r}, plan reports {e!r}"))
                        break
            used_stock = 1e6 - float(st.volumes[0, 1])
            if Fraction(used_stock) != v_stock or st.volumes[0, 0] != 1000.0:
                pass
            if Fraction(used_stock) != v_stock or st.volumes[0, 0] != 1000.0:
                V.append(("C14/stock-consumption", f"{tag}: consumed {used_stock} of stock, plan reports {float(v_stock)}"))
            used_dil = 1e6 - float(di.volumes[0, 2])
            if used_dil > float(plan.v_diluent) + 1e-6 or (not one_trough and (di.volumes[0, 0] != 0 or di.volumes[0, 1] != 0)):
                V.append(("C14/diluent-consumption", f"{tag}: consumed {used_dil} of diluent, plan reports at most {plan.v_diluent}"))
            if with_dest:
                dc = dest.composition.get("analyte")
                for c in range(C):
                    for r in range(R):
                        got = (float(dc[r, c]) if dc is not None else 0.0) * stock
                        if dest.volumes[r, c] != 1.0 or not abs(got - float(x[c][r])) <= 1e-9 * float(x[c][r]):
                            V.append(("C14/executed-concentration", f"{tag}: destination well ({r},{c}) holds {dest.volumes[r, c]} uL at {got!r}"))
                            break
        return V
