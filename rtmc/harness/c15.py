"""C15 - well transforms are exact inverses and geometrically correct."""
import numpy as np

from ..ref.numbering import parse_id, well_id
from ..world import rt
from . import common as cm


def ids(R, C):
    return [[well_id(r, c) for c in range(C)] for r in range(R)]


def inputs(R, C, tier):
    """(label, python value) inputs of 0-D, 1-D and 2-D shape"""
    g = ids(R, C)
    out = [("full2d", g), ("block2d", [row[: min(2, C)] for row in g[: min(2, R)]])]
    for r in range(R):
        out.append((f"row{r}", g[r]))
    for c in range(C):
        out.append((f"col{c}", [g[r][c] for r in range(R)]))
    cells = [(r, c) for r in range(R) for c in range(C)]
    if tier == "quick" and len(cells) > 40:
        cells = cells[:: max(1, len(cells) // 40)] + [cells[-1]]
    for r, c in cells:
        out.append((f"scalar{r},{c}", g[r][c]))
        out.append((f"list1:{r},{c}", [g[r][c]]))
    out.append(("col2d", [[g[r][0]] for r in range(R)]))
    if R > 1 and C > 1:
        # arrays of exactly the plate's shape whose content is not the plate in natural order
        colwise = [g[r][c] for c in range(C) for r in range(R)]
        out.append(("colwise-in-plate-shape", [colwise[i * C : (i + 1) * C] for i in range(R)]))
        inner = [list(row) for row in g]
        inner[0][C - 1], inner[R - 1][0] = inner[R - 1][0], inner[0][C - 1]
        out.append(("corners-kept-swapped-inside" if R * C > 4 else "anti-diagonal-swapped", inner))
        out.append(("one-well-repeated", [[g[0][0]] * C for _ in range(R)]))
    return out


def shape_of(x):
    if isinstance(x, str):
        return ()
    if x and isinstance(x[0], list):
        return (len(x), len(x[0]))
    return (len(x),)


def flat(x):
    if isinstance(x, str):
        return [x]
    if x and isinstance(x[0], list):
        return [w for row in x for w in row]
    return list(x)


class Harness(cm.BaseB):
    id = "C15"
    rule = (
        "rotator and randomizer: all 384 shapes 1..16 x 1..24; randomizer seeds 0..4 x {full,row,column}; inputs: the "
        "full 2-D array, the top-left 2x2 block, every row and column (1-D), single wells as 0-D string and 1-list "
        "(quick: up to 40 per shape); shifter: every A <= 4x6 into every B <= 6x8 with every anchor of B (fits and "
        "misfits) plus 6x8 -> 8x12 and 8x12 -> 16x24 with all anchors.  Compared with closed-form geometry, inverse "
        "laws, bijection and seed determinism.  non-trivial = shape with more than one well; distinct = distinct "
        "(transform, shape, parameters)"
    )

    def bounds(self, tier):
        return {"shapes": "1..16 x 1..24", "seeds": [0, 1, 2, 3, 4], "shifter_A": "<=4x6", "shifter_B": "<=6x8"}

    def chunks(self, tier):
        out = []
        for R in range(1, 17):
            out.append({"k": "rot", "R": R})
            out.append({"k": "rand", "R": R, "seeds": 5 if tier == "quick" else 12})
        for RA in range(1, 5):
            for RB in range(1, 7):
                out.append({"k": "shift", "RA": RA, "RB": RB})
        out.append({"k": "shiftbig"})
        return out

    def cases(self, chunk):
        k = chunk["k"]
        if k == "rot":
            for C in range(1, 25):
                yield {"k": "rot", "R": chunk["R"], "C": C}
        elif k == "rand":
            for C in range(1, 25):
                for seed in range(chunk.get("seeds", 5)):
                    for mode in ("full", "row", "column"):
                        yield {"k": "rand", "R": chunk["R"], "C": C, "seed": seed, "mode": mode}
                yield {"k": "rand", "R": chunk["R"], "C": C, "seed": 0, "mode": "diagonal"}
        elif k == "shift":
            for CA in range(1, 7):
                for CB in range(1, 9):
                    yield {"k": "shift", "A": [chunk["RA"], CA], "B": [chunk["RB"], CB]}
        else:
            yield {"k": "shift", "A": [6, 8], "B": [8, 12]}
            yield {"k": "shift", "A": [8, 12], "B": [16, 24]}
            yield {"k": "shift", "A": [16, 24], "B": [16, 24]}
            # destinations with more than 99 columns (IDs of different length on the two plates)
            yield {"k": "shift", "A": [8, 12], "B": [8, 120], "anchors": ["A01", "A89", "A97", "A109"]}
            yield {"k": "shift", "A": [2, 3], "B": [2, 101], "anchors": ["A98", "A99", "B99"]}

    def one(self, case):
        self.tier_inputs = getattr(self, "tier", "quick")
        return getattr(self, "one_" + case["k"])(case)

    def apply(self, fn, val, V, what):
        """call a transform on list and ndarray input; check shape preservation; return flat list"""
        res = None
        forms = ("py", "np") if len(shape_of(val)) < 2 else ("py", "np", "npF", "npT")
        for form in forms:
            if form == "py":
                arg = val
            elif form == "np":
                arg = np.array(val)
            elif form == "npF":
                arg = np.asfortranarray(np.array(val))  # column-major memory layout
            else:
                arg = np.array([list(col) for col in zip(*val)]).T  # transposed view of the transposed array
            try:
                r = fn(arg)
            except Exception as e:
                V.append(("C15/raised", f"{what} on {form} input of shape {shape_of(val)}: {type(e).__name__}: {e}"))
                return None
            r = np.asarray(r)
            if r.shape != shape_of(val):
                V.append(("C15/shape", f"{what}: input shape {shape_of(val)}, output shape {r.shape}"))
                return None
            fl = [str(x) for x in r.flatten()]
            try:
                r[...] = "Q00"  # results belong to the caller
            except Exception:
                pass
            if res is not None and fl != res:
                V.append(("C15/list-vs-array", f"{what}: list and ndarray input give different results"))
            res = fl
        return res

    def one_rot(self, case):
        R, C = case["R"], case["C"]
        cm.vandalize_helpers(R, C)
        cm.vandalize_helpers(C, R)
        rot = rt.WellRotator((R, C))
        back = rt.WellRotator((C, R))
        V = []
        for lab, val in inputs(R, C, self.tier_inputs):
            src = flat(val)
            cw = self.apply(rot.rotate_cw, val, V, f"rotate_cw {R}x{C} {lab}")
            ccw = self.apply(rot.rotate_ccw, val, V, f"rotate_ccw {R}x{C} {lab}")
            if cw is None or ccw is None:
                continue
            for w, a, b in zip(src, cw, ccw):
                r, c = parse_id(w)
                if a != well_id(c, R - 1 - r):
                    V.append(("C15/rotate_cw", f"{R}x{C}: {w} -> {a}, expected {well_id(c, R - 1 - r)}"))
                if b != well_id(C - 1 - c, r):
                    V.append(("C15/rotate_ccw", f"{R}x{C}: {w} -> {b}, expected {well_id(C - 1 - c, r)}"))
            if lab == "full2d":
                try:
                    self.rot_laws(R, C, rot, back, val, src, cw, ccw, V)
                except Exception as e:
                    V.append(("C15/raised", f"{R}x{C}: rotating a rotated plate back raised {type(e).__name__}: {e}"))
        return "rot", (f"rot{R}x{C}" if R * C > 1 else None), V

    def rot_laws(self, R, C, rot, back, val, src, cw, ccw, V):
        """inverse laws and four rotations = identity, through the rotator of the rotated plate"""
        shp = shape_of(val)
        a1 = np.array(cw).reshape(shp)
        if [str(x) for x in np.asarray(back.rotate_ccw(a1)).flatten()] != src:
            V.append(("C15/inverse", f"{R}x{C}: rotate_ccw(rotate_cw(x)) != x"))
        b1 = np.array(ccw).reshape(shp)
        if [str(x) for x in np.asarray(back.rotate_cw(b1)).flatten()] != src:
            V.append(("C15/inverse", f"{R}x{C}: rotate_cw(rotate_ccw(x)) != x"))
        x = np.array(val)
        for i in range(4):
            x = (rot if i % 2 == 0 else back).rotate_cw(x)
        if [str(w) for w in np.asarray(x).flatten()] != src:
            V.append(("C15/four-rotations", f"{R}x{C}: four clockwise rotations are not the identity"))
        if len(set(cw)) != R * C or len(set(ccw)) != R * C:
            V.append(("C15/bijection", f"{R}x{C}: rotation is not injective"))

    def one_rand(self, case):
        R, C, seed, mode = case["R"], case["C"], case["seed"], case["mode"]
        V = []
        cm.vandalize_helpers(R, C)
        try:
            rz = rt.WellRandomizer((R, C), seed, mode=mode)
            rz2 = rt.WellRandomizer((R, C), seed, mode=mode)
        except Exception as e:
            if mode == "diagonal":
                return "rand:badmode:raised", None, []
            return "rand:raised", None, [("C15/raised", f"WellRandomizer({R}x{C}, {seed}, {mode}): {type(e).__name__}: {e}")]
        if mode == "diagonal":
            return "rand:badmode:accepted", None, [("C15/unsupported-mode-accepted", f"mode {mode!r}")]
        # bystanders of another shape / seed, created after rz: they must not disturb it
        for shp, sd in (((R + 2, C + 3), seed + 1), ((max(1, R - 1), max(1, C - 1)), seed + 7), ((R, C), seed + 3)):
            rt.WellRandomizer(shp, sd, mode=mode)
        allw = flat(ids(R, C))
        for lab, val in inputs(R, C, self.tier_inputs):
            src = flat(val)
            fw = self.apply(rz.randomize_wells, val, V, f"randomize_wells {R}x{C} seed {seed} {mode} {lab}")
            if fw is None:
                continue
            shp = shape_of(val)
            bw = self.apply(rz.derandomize_wells, np.array(fw).reshape(shp).tolist() if shp else fw[0], V, f"derandomize_wells {R}x{C} {lab}")
            if bw is not None and bw != src:
                V.append(("C15/inverse", f"{R}x{C} seed {seed} {mode} {lab}: derandomize(randomize(x)) != x"))
            try:
                fw2 = [str(x) for x in np.asarray(rz2.randomize_wells(np.array(val))).flatten()]
            except Exception as e:
                fw2 = f"raised {type(e).__name__}"
            if fw2 != fw:
                V.append(("C15/seed-determinism", f"{R}x{C} seed {seed} {mode}: two randomizers with the same seed disagree"))
            for w, x in zip(src, fw):
                if x not in allw:
                    V.append(("C15/bijection", f"{R}x{C} {mode}: {w} -> {x!r} is not a well of the plate"))
                    break
                (r, c), (r2, c2) = parse_id(w), parse_id(x)
                if mode == "row" and r != r2:
                    V.append(("C15/row-mode", f"{R}x{C} seed {seed}: {w} -> {x} leaves its row"))
                if mode == "column" and c != c2:
                    V.append(("C15/column-mode", f"{R}x{C} seed {seed}: {w} -> {x} leaves its column"))
            if lab == "full2d":
                # fully determined by the seed: a third randomizer that is first asked for the last well, the last
                # row backwards and the last column, and a fourth one that is first asked to de-randomize, agree with it
                try:
                    g = ids(R, C)
                    rz3, rz4 = rt.WellRandomizer((R, C), seed, mode=mode), rt.WellRandomizer((R, C), seed, mode=mode)
                    rz3.randomize_wells(g[R - 1][C - 1])
                    rz3.randomize_wells(g[R - 1][::-1])
                    rz3.randomize_wells([g[r][C - 1] for r in range(R - 1, -1, -1)])
                    rz4.derandomize_wells([g[R - 1][C - 1], g[0][0]])
                    import copy
                    import pickle

                    clones = [(f"obtained from it by {nm2}", f(rz)) for nm2, f in (("copy.copy", copy.copy), ("copy.deepcopy", copy.deepcopy), ("a pickle round trip", lambda o: pickle.loads(pickle.dumps(o))))]
                    for nm, other in [("asked for the last well / row / column first", rz3), ("asked to de-randomize first", rz4)] + clones:
                        if [str(x) for x in np.asarray(other.randomize_wells(np.array(val))).flatten()] != fw:
                            V.append(("C15/seed-determinism", f"{R}x{C} seed {seed} {mode}: a randomizer with the same arguments that was {nm} maps the plate differently"))
                except Exception as e:
                    V.append(("C15/raised", f"{R}x{C} seed {seed} {mode}: {type(e).__name__}: {e}"))
                if sorted(fw) != sorted(allw):
                    V.append(("C15/bijection", f"{R}x{C} seed {seed} {mode}: not a permutation of the plate"))
                dr = self.apply(rz.derandomize_wells, val, V, f"derandomize_wells {R}x{C} full")
                if dr is not None:
                    try:
                        rr = [str(x) for x in np.asarray(rz.randomize_wells(np.array(dr).reshape(shp))).flatten()]
                    except Exception as e:
                        rr = f"raised {type(e).__name__}"
                    if rr != src:
                        V.append(("C15/inverse", f"{R}x{C} seed {seed} {mode}: randomize(derandomize(x)) != x"))
        return f"rand:{mode}", (f"rand{R}x{C}/{seed}/{mode}" if R * C > 1 else None), V

    def one_shift(self, case):
        (RA, CA), (RB, CB) = case["A"], case["B"]
        cm.vandalize_helpers(RA, CA)
        cm.vandalize_helpers(RB, CB)
        V = []
        n_ok = 0
        for dr in range(RB):
            for dc in range(CB):
                anchor = well_id(dr, dc)
                if case.get("anchors") and anchor not in case["anchors"]:
                    continue
                fits = RA + dr <= RB and CA + dc <= CB
                try:
                    sh = rt.WellShifter((RA, CA), (RB, CB), anchor)
                except Exception as e:
                    if fits:
                        V.append(("C15/fitting-shift-refused", f"{RA}x{CA} into {RB}x{CB} at {anchor}: {type(e).__name__}"))
                    continue
                if not fits:
                    V.append(("C15/misfit-accepted", f"{RA}x{CA} into {RB}x{CB} at {anchor} was accepted"))
                    continue
                n_ok += 1
                if RA * CA > 1:
                    # results belong to the caller: a second call must not rewrite what the first one returned
                    try:
                        g0 = ids(RA, CA)
                        first = sh.shift(np.array(g0))
                        keep = np.array(first).copy()
                        sh.shift(np.array(g0)[::-1, ::-1].copy())
                        sh.unshift(np.array(keep)[::-1, ::-1].copy())
                        if not np.array_equal(np.asarray(first), keep):
                            V.append(("C15/shift-offset", f"{RA}x{CA}->{RB}x{CB}@{anchor}: the array returned by shift() changed when shift() was called again"))
                    except Exception as e:
                        V.append(("C15/raised", f"{RA}x{CA}->{RB}x{CB}@{anchor}: {type(e).__name__}: {e}"))
                ins = inputs(RA, CA, "quick") if RA * CA <= 24 else [("full2d", ids(RA, CA)), ("row0", ids(RA, CA)[0]), ("scalar", "A01")]
                for lab, val in ins:
                    src = flat(val)
                    out = self.apply(sh.shift, val, V, f"shift {RA}x{CA}->{RB}x{CB}@{anchor} {lab}")
                    if out is None:
                        continue
                    for w, x in zip(src, out):
                        r, c = parse_id(w)
                        if x != well_id(r + dr, c + dc):
                            V.append(("C15/shift-offset", f"{RA}x{CA}->{RB}x{CB}@{anchor}: {w} -> {x}, expected {well_id(r + dr, c + dc)}"))
                            break
                    shp = shape_of(val)
                    back = self.apply(sh.unshift, np.array(out).reshape(shp).tolist() if shp else out[0], V, f"unshift {lab}")
                    if back is not None and back != src:
                        V.append(("C15/inverse", f"{RA}x{CA}->{RB}x{CB}@{anchor} {lab}: unshift(shift(x)) != x"))
        return "shift", (f"shift{case}" if n_ok else None), V
