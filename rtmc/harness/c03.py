"""C03 - a worklist never contains a rejected or oversized pipetting step, even on abort."""
import os
import shutil
import tempfile

from ..ref.robot import Robot
from ..world import DEVICE, WLCLS, build_labware, exc_is, exec_event, initial_contents, make_world
from . import c01
from . import common as cm
from .c01 import A, D, R, T

SITES = {"P": (10, 1), "Q": (11, 2), "T": (12, 3), "U": (13, 1)}  # grid, site of every labware for EVO script commands


def EA(lw, wells, tips, v, **kw):
    return ["evo_aspirate", "w", lw, wells, list(SITES[lw]), tips, v, "LC", kw]


def ED(lw, wells, tips, v, **kw):
    return ["evo_dispense", "w", lw, wells, list(SITES[lw]), tips, v, "LC", kw]


def failing_W1():
    ev = []
    # k-th aspirate underflows / k-th dispense overflows, with and without splitting
    for vols in ([30, 30, 70], [70, 30], [120], [30, 120], [200]):
        n = len(vols)
        ev.append(T("P", ["A01"] * n, "Q", ["A01", "B01", "C01"][:n], vols))
        ev.append(T("P", ["A01", "B01", "A02"][:n], "Q", ["A01"] * n, vols))
        ev.append(T("T", ["A02", "B02", "C02"][:n], "Q", ["A02", "B02", "C02"][:n], vols))
        ev.append(T("T", ["A02", "B02", "C02"][:n], "Q", ["A02", "B02", "C02"][:n], vols, partition_by="source", wash_scheme="reuse"))
    ev += [
        T("T", ["A01", "B01"], "Q", ["A01", "A01"], [120, 120]),
        T("T", ["A01", "B01", "C01"], "P", ["A01", "B01", "A02"], [30, 120, 70]),
        T("Q", ["A01", "B01"], "P", ["A01", "A01"], [7.5, 30]),
        T("P", ["A01", "B01"], "T", ["A01", "A01"], [70, 30]),
        A("P", ["A01", "B01", "A02"], [30, 70, 30]),
        A("P", ["A01", "A01", "A01"], [30, 30, 40]),
        A("T", ["A02", "B02"], [50, 250]),
        A("P", ["A01", "B01"], [30, 50.5]),
        D("Q", ["A01", "B01", "A01"], [50, 30, 50]),
        D("Q", ["A01", "A01", "A01", "A01"], 50),
        D("P", ["A01", "B01"], [30, 120]),
        D("Q", ["A01"], 30, liquid_class="a;b"),
        A("P", ["A01"], 30, tip=9),
        A("P", ["A01", "B01"], 30, rack_id="x" * 33),
        # reagent distribution: source short, j-th destination full, oversized, invalid direction / wells
        R("T", 1, "Q", ["A01", "B01", "C01", "A02", "B02", "C02"], 50),
        R("T", 0, "Q", ["A01", "B01", "C01", "A02", "B02", "C02"], 50, multi_disp=2),
        R("T", 0, "P", ["A01", "B01"], 50),
        R("T", 0, "P", ["A01", "B01", "A02"], 30, multi_disp=2),
        R("T", 0, "Q", ["A01"], 50.5),
        R("T", 0, "Q", ["A01"], 120),
        R("T", 0, "Q", ["A01"], 7.5, direction="up"),
        R("T", 0, "Q", ["A5"], 7.5),
        R("T", 0, "Q", ["D01"], 7.5),
        R("P", 0, "Q", ["A01"], 7.5),
        R("T", 0, "Q", ["A01"], 7.5, liquid_class="x;y"),
        R("T", 0, "Q", ["A01"], 7.5, src_rack_id="i" * 40),
        # volumes in small unsigned integer dtypes (a negated uint8 wraps around)
        A("P", ["A01"], {"$npa": ["uint8", [95]]}),
        A("P", ["A01", "B01"], {"$npa": ["uint8", [30, 200]]}),
        T("P", ["A01"], "Q", ["A01"], {"$npa": ["uint8", [95]]}),
        A("T", ["A01"], {"$nps": ["uint16", 490]}),
    ]
    return ev


def failing_W3():
    ev = []
    for vols in ([30, 30, 30], [70], [120], [7.5, 70], [30, 7.5, 30]):
        n = len(vols)
        ev.append(T("T", ["A01", "B01", "C01"][:n], "Q", ["A01", "B01", "B02"][:n], vols))
        ev.append(T("T", ["A01", "B01", "C01"][:n], "Q", ["A01", "B01", "B02"][:n], vols, partition_by="source", wash_scheme="flush"))
        ev.append(T("P", ["A01", "B01", "A02"][:n], "Q", ["C01", "A02", "B02"][:n], vols))
        ev.append(T("P", ["A01", "A01", "A01"][:n], "Q", ["B02", "C02", "A01"][:n], vols))
        ev.append(T("Q", ["C01", "A02", "B01"][:n], "P", ["A01", "A01", "A02"][:n], vols))
    ev += [
        T("T", ["A02"], "Q", ["A01"], [30]),
        T("P", ["A01"], "Q", ["C01"], [7.5]),
        A("P", ["A01", "B01", "A02"], [70, 7.5, 120]),
        A("Q", ["C01", "A02", "B01"], [30, 30, 30]),
        A("T", ["A01", "B01", "C01"], [30, 30, 30]),
        D("Q", ["A01", "C01"], [30, 7.5]),
        D("P", ["A01", "B01", "A01"], [7.5, 7.5, 7.5]),
        D("T", ["A01", "B01"], 200),
        # Q was initialised from integers: three fractional dispenses that only together exceed the limit
        D("Q", ["C01", "C01", "C01"], 1.75),
        T("P", ["A01", "B01", "A02"], "Q", ["C01", "C01", "C01"], [1.75, 1.75, 1.75]),
        D("Q", ["A02"] * 6, 3.5),
        R("T", 1, "Q", ["A01", "B01", "B02"], 7.5),
        R("T", 0, "Q", ["A01", "C01"], 7.5),
        R("T", 0, "Q", ["A01", "B01", "A02", "B02", "C02"], 30),
        R("T", 0, "P", ["A01", "B01"], 30, multi_disp=3),
        R("T", 0, "Q", ["B02"], 70),
        # repeated destinations whose number equals the number of skipped positions: the skipped well (C01, nearly
        # full) is not a destination
        R("T", 0, "Q", ["A01", "A01", "B01", "A02"], 7.5),
        R("T", 1, "Q", ["B01", "B01", "B02"], 2.5),
        A("P", ["A01"], {"$npa": ["uint8", [85]]}),
    ]
    return ev


def core_W6():
    return [
        T("T", ["A02"], "P", ["A01"], [7.5]),
        T("P", ["B01"], "T", ["A01"], [30]),
        A("T", ["A01"], 0.25),
        D("T", ["B02"], 0.25),
    ]


def failing_W6():
    return [
        A("T", ["A01"], 0.75),
        A("T", ["A01", "B01"], [0.25, 0.5]),
        T("T", ["C01"], "P", ["A02"], [0.75]),
        T("T", ["A01", "B01"], "P", ["A02", "B02"], [0.25, 0.5]),
        D("T", ["A02"], 0.75),
        D("T", ["A02", "C02"], [0.25, 0.5]),
        T("P", ["A03"], "T", ["B02"], [0.75]),
        R("T", 0, "P", ["A01", "B01"], 0.5),
        R("T", 0, "P", ["A01"], 0.75),
        T("P", ["A01", "B01"], "T", ["A02", "A02"], [0.25, 0.5]),
    ]


def SH():
    """P and P2 are constructed from one and the same float64 array object (a caller's template)"""
    from ..world import plate

    a = [[100, 100, 100], [100, 100, 100]]
    return [
        dict(plate("P", 2, 3, 10, 200, a), share="tmpl"),
        dict(plate("P2", 2, 3, 0, 300, a), share="tmpl"),
        plate("Q", 3, 2, 0, 150, 0),
    ]


def core_SH():
    return [
        T("P", ["A01"], "P2", ["A01"], [60]),
        A("P", ["B01"], [45]),
        D("P2", ["B01"], [45]),
        T("P2", ["B02"], "Q", ["A01"], [30]),
    ]


def full_SH():
    return core_SH() + [
        T("P", ["A01", "B01"], "P2", ["A01", "B01"], [45, 60]),
        T("P2", ["A01"], "P", ["A01"], [120]),
        A("P", ["A01"], [45]),
        D("P", ["A01"], [45]),
        A("P2", ["A01", "A01"], [45, 45]),
    ]


def core_MA():
    """volumes as numpy.ma masked arrays, then steps that depend on what was tracked for the masked entries"""
    return [
        D("Q", ["A01", "B01"], {"$ma": [[30, 30], [False, True]]}),
        A("Q", ["B01"], [25]),
        A("P", ["A01", "B01"], {"$ma": [[45, 45], [True, False]]}),
        A("P", ["A01"], [25]),
        # a fractional volume handed to distribute as a numpy scalar, then exactly that much taken out again
        R("T", 0, "Q", ["C01", "C02"], {"$npf": 7.5}),
        A("Q", ["C01", "C02"], [7.5, 7.5]),
    ]


def core_MV():
    return [
        ["set_attr", "w", "max_volume", 20],
        T("P", ["A01"], "Q", ["A01"], [30]),
        A("P", ["B01"], [7.5]),
    ]


def full_MV():
    return core_MV() + [
        A("P", ["A01"], [30]),
        D("Q", ["A01"], [30]),
        A("P", ["A01", "B01"], [7.5, 45]),
        T("P", ["A01", "B01"], "Q", ["A01", "B01"], [30, 45]),
        T("T", ["A01"], "Q", ["B02"], [20.5], wash_scheme="reuse"),
        R("T", 0, "Q", ["A01", "B01"], 30),
        R("T", 0, "Q", ["A01", "B01", "C01"], 7.5, multi_disp=3),
        ["set_attr", "w", "max_volume", 50],
    ]


def evo_events():
    return [
        # tips given in descending order with individual volumes: must not be emitted with swapped volumes
        EA("Q", ["B01", "C01"], [2, 1], [7.5, 30]),
        EA("Q", ["C01", "B01"], [2, 1], [30, 7.5]),  # wells and tips in the same descending order
        ED("Q", ["C01", "A01"], [3, 1], [2.5, 30]),
        EA("P", ["A01", "B01"], [3, 1], [70.0, 7.5]),
        ED("Q", ["A01", "C01"], [4, 2], [30, 2.5]),
        EA("P", ["A01", "B01"], [1, 2], [30, 7.5]),
        EA("P", ["A01", "B01"], [1, 2], 95.0),
        EA("P", ["A01", "B01"], [1, 2], [30, 70.0]),
        EA("P", ["A01", "B01"], [1, 2], [70.0, 30]),
        EA("T", ["A01", "B01", "C01"], [1, 2, 3], [7.5, 70.0, 30]),
        ED("Q", ["A01", "B01", "C01"], [2, 3, 4], [70.0, 7.5, 30]),
        ED("Q", ["A01", "B01"], [1, 2], [7.5, 70.0]),
        EA("P", ["A01", "A02"], [1, 2], 7.5),
        EA("T", ["A01", "B01", "C01"], [1, 2, 3], 40.0),
        EA("P", ["A01"], [1], 7.5, arm=2),
        ED("Q", ["A01", "B01"], [1, 2], [30, 7.5]),
        ED("Q", ["A01", "B01"], [3, 4], 50.0),
        ED("Q", ["A01", "B02"], [1, 2], 7.5),
        ED("P", ["A01", "B01"], [1, 2], [7.5, 130.0]),
    ]


class Harness(cm.BaseA):
    id = "C03"
    rule = (
        "every sequence of <= depth successful core operations followed by any one operation of the full "
        "alphabet (which contains a designed failure at every sub-step of transfer/aspirate/dispense/"
        "distribute/evo_*); the whole record list is replayed record by record by the independent interpreter "
        "with limit and step-size checks; for raising executions the same history is re-run inside a `with` "
        "block and the bytes on disk are compared.  non-trivial = the last operation raised; distinct = "
        "distinct (operation, exception class, number of records it had appended, canonical pre-state)"
    )
    assumptions = [
        "the worklist is emptied between transitions after its records were handed to the interpreter; no operation in the alphabet reads earlier records",
    ]

    def depth(self, tier):
        return 2 if tier == "quick" else 3

    def bounds(self, tier):
        return {"depth": self.depth(tier), "sets": ["W1", "W3"], "auto_split": [True, False], "worklist_max_volume": 50}

    def configs(self, tier):
        out = []
        for sname in ("W1", "W3"):
            for cls in ("EvoWorklist", "FluentWorklist"):
                for asplit in (True, False):
                    out.append(
                        {"set": sname, "labware": c01.SETS[sname][0](), "worklists": {"w": {"cls": cls, "max_volume": 50, "auto_split": asplit}}}
                    )
        for cls in ("EvoWorklist", "FluentWorklist"):
            out.append({"set": "W6", "labware": cm.W6(), "worklists": {"w": {"cls": cls, "max_volume": 50, "auto_split": True}}})
            # labware built from one array object (every transition re-executes its history on fresh objects)
            out.append({"set": "SH", "fresh": True, "labware": SH(), "worklists": {"w": {"cls": cls, "max_volume": 50, "auto_split": True}}})
            # wl.max_volume re-assigned on the live worklist
            for asplit in (True, False):
                out.append({"set": "MV", "labware": cm.W1(), "worklists": {"w": {"cls": cls, "max_volume": 50, "auto_split": asplit}}})
            out.append({"set": "MA", "labware": cm.W1(), "worklists": {"w": {"cls": cls, "max_volume": 50, "auto_split": True}}})
        return out

    def _robot(self, config):
        dev = DEVICE[config["worklists"]["w"]["cls"]]
        sm = {(g, s - 1): n for n, (g, s) in SITES.items()}
        return Robot(dev, cm.geos(config), {s["name"]: initial_contents(s) for s in config["labware"]}, wl_max=50, site_map=sm)

    def init(self, config):
        W = make_world(config)
        W["robot"] = self._robot(config)
        W["path"] = []
        W["allrecs"] = []
        W["wlmax"] = 50
        return W

    def core_events(self, W, config):
        if config["set"] == "W6":
            return core_W6()
        if config["set"] == "SH":
            return core_SH()
        if config["set"] == "MV":
            return core_MV()
        if config["set"] == "MA":
            return core_MA()
        return c01.SETS[config["set"]][1]()

    def full_events(self, W, config):
        if config["set"] == "W6":
            return core_W6() + failing_W6()
        if config["set"] == "SH":
            return full_SH()
        if config["set"] == "MV":
            return full_MV()
        if config["set"] == "MA":
            return core_MA() + c01.masked_events() + [A("P", ["A01"], [50]), A("P", ["A01", "A01"], [45, 45]), A("Q", ["A01", "B01"], [30, 30])]
        ev = list(c01.SETS[config["set"]][2]("quick"))
        ev += failing_W1() if config["set"] == "W1" else failing_W3()
        if config["worklists"]["w"]["cls"] == "EvoWorklist":
            ev += evo_events()
        return ev

    def canon(self, W, config):
        parts = [lw.volumes.astype(float).tobytes() for _, lw in sorted(W["lw"].items())]
        return b"|".join(parts) + W["robot"].canon().encode() + repr(W["wlmax"]).encode()

    def step(self, W, ev, config):
        wl = W["wl"]["w"]
        if not W["path"]:
            cm.other_device_looks(W, config["worklists"]["w"]["cls"])
        pre = self.canon(W, config)
        out, exc = exec_event(W, ev)
        recs = list(wl)
        del wl[:]
        W["path"] = W["path"] + [ev]
        W["allrecs"] = W["allrecs"] + recs
        res = {"outcome": f"{ev[0]}:{out}:{len(recs)}rec", "violations": []}
        V = res["violations"]
        robot = W["robot"]
        robot.tip = None
        if ev[0] == "set_attr" and out == "ok":
            from fractions import Fraction

            W["wlmax"] = ev[3]
            robot.wl_max = Fraction(ev[3])
        wlmax = W["wlmax"]
        for i, r in enumerate(recs):
            p, issues = robot.feed(r)
            for tag, d in issues:
                if tag in ("negative", "below_min", "above_max"):
                    V.append(("C03/rejected-step-in-worklist", f"record #{len(W['allrecs']) - len(recs) + i} {r!r}: {tag} {d}"))
                elif tag in ("step>max_volume", "multi_disp*volume>max_volume"):
                    V.append(("C03/step>max_volume", f"{r!r}: {d}"))
                elif tag == "unparsable":
                    V.append(("C03/unparsable-record", f"{r!r}: {d}"))
                elif tag in ("bad_position", "unknown_rack", "unknown_site", "R_source_not_single_column", "R_source_not_trough", "selection_dims"):
                    V.append(("C03/record-for-nonexistent-well", f"{r!r}: {tag} {d}"))
        if out == "ok":
            # without auto_split an oversized step must raise instead of being emitted
            if not config["worklists"]["w"]["auto_split"] and ev[0] == "transfer":
                tr = cm.triples(config, ev[2], ev[3], ev[4], ev[5], ev[6])
                if tr and any(v > wlmax for _, _, v in tr):
                    V.append(("C03/oversized-step-not-refused", "transfer with auto_split off and a volume above max_volume returned normally"))
            return res
        res["expand"] = False
        res["reached"] = [f"{ev[0]}:{type(exc).__name__}:after{min(len([r for r in recs if r[0] in 'ADRB' and r != 'B;']), 9)}"]
        res["nontrivial"] = pre + res["reached"][0].encode()
        if not config["worklists"]["w"]["auto_split"] and ev[0] == "transfer" and not exc_is(exc, "VolumeViolationException", "InvalidOperationError"):
            tr = None
            try:
                tr = cm.triples(config, ev[2], ev[3], ev[4], ev[5], ev[6])
            except Exception:
                pass
            if tr and any(v > wlmax for _, _, v in tr) and all(v >= 0 for _, _, v in tr):
                V.append(("C03/oversized-step-wrong-exception", f"raised {type(exc).__name__} instead of InvalidOperationError"))
        V += self.file_pass(W, config)
        return res

    def file_pass(self, W, config):
        """re-run the same history inside a `with` block; the file must hold exactly the replayed records"""
        V = []
        from ..engine import run_tmp

        d = tempfile.mkdtemp(prefix="c03-", dir=run_tmp())
        try:
            path = os.path.join(d, "abort.gwl")
            with open(path, "wb") as f:  # a longer file of an earlier run is already there
                f.write(b"A;P;;;1;;150.00;;;;\r\nD;Q;;;1;;150.00;;;;\r\nW1;\r\n" * 60)
            ws = config["worklists"]["w"]
            W2 = {"lw": {s["name"]: build_labware(s) for s in config["labware"]}, "wl": {}}
            raised = None
            try:
                with WLCLS[ws["cls"]](path, max_volume=ws["max_volume"], auto_split=ws["auto_split"]) as wl:
                    W2["wl"]["w"] = wl
                    for ev in W["path"]:
                        out, exc = exec_event(W2, ev)
                        if exc is not None:
                            raise exc
            except Exception as e:
                raised = e
            if raised is None:
                V.append(("C03/exception-swallowed-by-with-block", f"the same history inside a `with` block: the exception of the last operation did not leave the block"))
            if not os.path.exists(path):
                V.append(("C03/file-not-written-on-abort", "leaving the with block through an exception wrote no file"))
            else:
                with open(path, "rb") as f:
                    data = f.read()
                recs = data.decode("latin-1").split("\r\n") if data else []
                if recs != W["allrecs"]:
                    V.append(("C03/file-differs-from-replayed-records", f"file has {len(recs)} records, replayed {len(W['allrecs'])}"))
        finally:
            shutil.rmtree(d, ignore_errors=True)
        return V

    DESIGNED = [
        "transfer:VolumeUnderflowError",
        "transfer:VolumeOverflowError",
        "transfer:InvalidOperationError",
        "aspirate:VolumeUnderflowError",
        "aspirate:InvalidOperationError",
        "aspirate:ValueError",
        "dispense:VolumeOverflowError",
        "dispense:InvalidOperationError",
        "dispense:ValueError",
        "distribute:VolumeUnderflowError",
        "distribute:VolumeOverflowError",
        "distribute:InvalidOperationError",
        "distribute:ValueError",
        "evo_aspirate:VolumeUnderflowError",
        "evo_aspirate:InvalidOperationError",
        "evo_dispense:VolumeOverflowError",
    ]

    def vacuity(self, total, tier):
        """the designed failure points must have been reached (independent of how many records the failing
        operation had appended, which is what the property is about)"""
        kinds = {m.rsplit(":", 1)[0] for m in total.reached}
        for m in self.DESIGNED:
            if m not in kinds:
                yield f"designed failure point {m} was not reached"
        for m in ("transfer:VolumeUnderflowError", "transfer:VolumeOverflowError"):
            n = len({x for x in total.reached if x.startswith(m + ":")})
            if n < 3:
                yield f"{m} was reached at only {n} distinct sub-steps"
