"""C05 - composition tracking equals ideal volumetric mixing and conserves components."""
import math
from fractions import Fraction

import numpy as np

from ..ref.numbering import well_id
from ..ref.robot import Robot
from ..world import DEVICE, build_labware, default_component_names, exec_event, geo_of, init_matrix, make_world, plate, trough
from . import common as cm
from .c01 import A, D, R, T


def Rm(lw, wells, v):
    return ["remove", lw, wells, v, {}]


def N1():
    return [plate("P", 2, 3, 0, 400, 100), plate("Q", 3, 2, 0, 300, 0), trough("T", 3, 2, 20, 1000, [500, 300])]


def N2():
    return [
        plate("P", 2, 3, 0, 400, [[100, 50, 0], [100, 25, 100]], {"A01": "a", "B01": "b", "A02": "a", "B03": "water"}),
        plate("Q", 3, 2, 0, 300, [[0, 0], [20, 0], [0, 0]], {"B01": "a"}),
        trough("T", 3, 2, 20, 1000, [500, 300], ["water", "b"]),
    ]


def N3():
    return [
        plate("P", 1, 1, 0, 400, 100),  # single-well plate: named after the labware
        plate("Q", 1, 3, 0, 300, [[50, 0, 25]]),  # single-row plate: default names unspecified
        dict(trough("T", 2, 1, 0, 1000, 400), generic=True),  # single-column trough (generic constructor): named after the labware
        plate("U", 2, 2, 0, 300, [[10, 0], [0, 0]], {"A01": "T"}),  # a name shared with the trough's default
    ]


def N4():
    long_a = "phosphate buffer pH 7.0, sterile filtered, lot 2024-11"
    long_b = "phosphate buffer pH 8.5, sterile filtered, lot 2024-12"
    return [
        plate("P", 2, 3, 0, 400, [[100, 50, 0], [100, 25, 100]], {"A01": long_a, "B01": long_b, "A02": long_a + " (aliquot)"}),
        plate("Q", 3, 2, 0, 300, 0),
        trough("T", 3, 2, 20, 1000, [500, 300], [long_a, long_b]),
    ]


def N6():
    """user-given names that coincide with the default name of another, unnamed well (earlier and later in
    row-major order), and with the default of a trough column"""
    return [
        plate("P", 2, 3, 0, 400, [[100, 50, 0], [100, 25, 100]], {"A01": "P.B02", "B03": "P.A02", "B01": "T.column_02"}),
        plate("Q", 3, 2, 0, 300, 0),
        trough("T", 3, 2, 20, 1000, [500, 300]),
    ]


def N5():
    """P and P2: replicates built from one and the same float64 array object"""
    a = [[100, 50, 0], [100, 25, 100]]
    return [
        dict(plate("P", 2, 3, 0, 400, a), share="tmpl"),
        dict(plate("P2", 2, 3, 0, 400, a), share="tmpl"),
        plate("Q", 3, 2, 0, 300, 0),
        trough("T", 3, 2, 20, 1000, [500, 300]),
    ]


def ev_N5():
    core = [
        T("P", ["A01"], "Q", ["A01"], [30]),
        T("P2", ["A01", "B01"], "Q", ["A01", "B01"], [30, 7.5]),
        T("T", ["A02"], "P", ["A01"], [70]),
        T("P", ["B03"], "P2", ["A03"], [30]),
        T("Q", ["A01"], "P2", ["A01"], [7.5]),
    ]
    full = [
        T("P2", ["B02", "A02"], "Q", ["A01", "A01"], [7.5, 30]),
        T("P2", ["A01"], "P", ["A01"], [30]),
        R("T", 0, "P2", ["A01", "B02"], 30),
        Rm("P2", ["A01"], 30),
        D("P", ["A01"], 30, compositions=[{"x": 1.0}]),
    ]
    return core, full


def ev_N12():
    core = [
        T("P", ["A01"], "Q", ["A01"], [30]),
        T("P", ["A01", "B01"], "Q", ["A01", "B01"], [30, 7.5]),
        T("P", ["B02", "A02"], "Q", ["A01", "A01"], [7.5, 30]),
        T("T", ["A01", "B01", "C01"], "Q", ["A01", "B01", "C01"], [120, 30, 7.5]),
        T("T", ["A02"], "P", ["A01"], [70]),
        T("Q", ["A01"], "Q", ["A02"], [7.5]),
        T("Q", ["A01"], "Q", ["A01"], [7.5]),
        T("Q", ["A01", "B01"], "P", ["B01", "A03"], [30, 7.5]),
        T("P", ["A01"], "P", ["B01"], [30]),
        T("P", ["A01", "B01"], "P", ["B01", "A02"], [30, 30]),
        T("Q", ["B01"], "T", ["A02"], [7.5]),
        T("T", ["B02"], "Q", ["B02"], [7.5]),
        T("Q", ["A01"], "T", ["C02"], [7.5]),
        R("T", 0, "Q", ["A01", "B01", "A02"], 30),
        R("T", 1, "P", ["A01", "B03"], 7.5),
        D("Q", ["A01"], 30, compositions=[{"x": 1.0}]),
        D("Q", ["A01", "B02"], [7.5, 30], compositions=[{"a": 1.0}, {"x": 0.5, "y": 0.5}]),
        A("Q", ["A01"], 30),
        Rm("Q", "A01", 7.5),
        Rm("P", ["A01", "B01"], [100, 50]),
    ]
    full = [
        T("Q", ["A01", "A02"], "Q", ["A02", "B02"], [7.5, 7.5]),  # a well that is destination and source
        T("Q", ["A01", "B01"], "Q", ["B01", "C01"], [7.5, 7.5]),  # serial dilution down one column, one call
        T("P", ["A01", "B01"], "P", ["B01", "A01"], [30, 30]),  # swap inside one column group
        T("P", ["A02", "B02"], "P", ["B02", "A03"], [70, 70], partition_by="source"),  # chain with split volumes
        T("Q", ["A02", "B02", "C02"], "Q", ["B02", "C02", "A01"], [7.5, 7.5, 7.5], partition_by="destination"),
        T("Q", ["A02", "A01"], "Q", ["A01", "B02"], [7.5, 7.5], partition_by="destination"),
        T("P", ["A01", "B01", "A02", "B02"], "Q", ["A01", "A01", "B01", "B01"], [0, 30, 0, 7.5]),
        T("P", ["A01"], "Q", ["C02"], [0]),
        T("T", {"$w2d": ["T", 0, 3, 0, 1]}, "Q", {"$w2d": ["Q", 0, 3, 0, 1]}, [70, 120, 7.5]),
        T("P", {"$w2d": ["P", 0, 2, 0, 2]}, "Q", {"$w2d": ["Q", 0, 2, 0, 2]}, {"$a": [[7.5, 30], [1.5, 2.5]]}),
        T("T", ["A01", "A02"], "T", ["A02", "A01"], [70, 30]),
        D("Q", ["C02"], 0, compositions=[{"x": 1.0}]),  # zero volume into an empty well
        D("P", ["A01"], 0, compositions=[{"x": 1.0}]),  # zero volume into a non-empty well
        D("Q", ["A01", "A01"], [0, 30], compositions=[{"x": 1.0}, {"y": 1.0}]),
        D("Q", {"$w2d": ["Q", 0, 3, 0, 2]}, 7.5, compositions=[{"x": 1.0}, {"y": 1.0}, {"a": 1.0}, {"x": 0.25, "a": 0.75}, {"z": 1.0}, {"x": 1.0}]),
        D("T", ["B02"], 30, compositions=[{"x": 1.0}]),
        # refused additions of known composition (overflow at the first / second well): nothing may be mixed in
        D("P", ["A01"], 350, compositions=[{"x": 1.0}]),
        D("P", ["B01", "A01"], [30, 350], compositions=[{"y": 1.0}, {"x": 1.0}]),
        ["add", "Q", ["B01", "B01"], [30, 290], {"compositions": [{"x": 1.0}, {"y": 1.0}]}],
        A("P", {"$w2d": ["P", 0, 2, 0, 2]}, [[1.5, 2.5], [3.5, 4.5]]),
        A("T", ["A01", "B01"], 30),
        Rm("Q", ["A01", "B01"], [30, 7.5]),
        Rm("Q", ["A01"], 60),
        Rm("P", ["A02"], 50),
        R("T", 0, "Q", ["C02"], 30, multi_disp=3),
        R("T", 1, "Q", ["A01", "B01", "C01", "A02", "B02", "C02"], 7.5),
        R("T", 0, "T", ["A02"], 30),
        ["add", "Q", ["A01"], 30, {"compositions": [{"x": 1.0}]}],
        ["add", "Q", ["B02", "B02"], [7.5, 30], {"compositions": [{"x": 1.0}, {"T.column_01": 1.0}]}],
        # Labware.add called directly with a 2-D block of wells and one composition per well (column-major pairing)
        ["add", "Q", {"$w2d": ["Q", 0, 2, 0, 2]}, 7.5, {"compositions": [{"x": 1.0}, {"y": 1.0}, {"a": 1.0}, {"z": 1.0}]}],
        ["add", "Q", {"$w2d": ["Q", 0, 3, 0, 2]}, [7.5, 30, 7.5, 30, 7.5, 30], {"compositions": [{"x": 1.0}, {"y": 1.0}, {"a": 1.0}, {"x": 0.25, "a": 0.75}, {"z": 1.0}, {"x": 1.0}]}],
        ["add", "P", {"$a": [["A01", "A02"], ["B01", "B02"]]}, {"$a": [[7.5, 30], [10, 20]]}, {"compositions": [{"x": 1.0}, {"y": 1.0}, {"a": 1.0}, {"z": 1.0}]}],
    ]
    return core, full


def ev_N3():
    core = [
        T("P", ["A01"], "Q", ["A02"], [30]),
        T("Q", ["A01", "A03"], "U", ["A01", "B02"], [7.5, 7.5]),
        T("T", ["A01", "B01"], "U", ["A01", "A02"], [30, 70]),
        T("T", ["A01"], "P", ["A01"], [7.5]),
        T("U", ["A01"], "Q", ["A02"], [7.5]),
        T("Q", ["A02"], "T", ["B01"], [7.5]),
        R("T", 0, "Q", ["A01", "A03"], 7.5),
        R("T", 0, "U", ["B01", "A02"], 30),
        D("Q", ["A02"], 30, compositions=[{"T": 1.0}]),
        A("Q", ["A01"], 50),
        Rm("U", ["A01"], 10),
    ]
    full = [
        T("Q", {"$w2d": ["Q", 0, 1, 0, 3]}, "U", ["A01", "B01", "A02"], [7.5, 0, 7.5]),
        T("P", ["A01"], "P", ["A01"], [30]),
        D("U", ["B02"], 0, compositions=[{"T": 1.0}]),
        D("P", ["A01"], 30, compositions=[{"P": 0.5, "Q.A01": 0.5}]),
    ]
    return core, full


SETS = {"N1": (N1, ev_N12), "N2": (N2, ev_N12), "N3": (N3, ev_N3), "N4": (N4, ev_N12), "N5": (N5, ev_N5), "N6": (N6, ev_N12)}


def contents_by_name(spec, W):
    names = default_component_names(spec)
    out = {}
    for cell, v in init_matrix(spec).items():
        v = Fraction(v)
        if v > 0:
            n = names[cell]
            if n is None:  # unspecified default (single-row plate): read it off the implementation
                lw = W["lw"][spec["name"]]
                c = [k for k, a in lw.composition.items() if a[cell] == 1]
                n = c[0] if len(c) == 1 else f"?{spec['name']}{cell}"
            out[cell] = (v, {n: v})
        else:
            out[cell] = (v, {})
    return out


class Harness(cm.BaseA):
    id = "C05"
    fresh_quick = True  # every transition is re-executed from a fresh world (hidden state, aliasing)
    rule = (
        "every sequence of <= depth core operations (transfer / distribute / dispense with known composition / "
        "aspirate / remove) followed by any one operation of the full alphabet, for three naming configurations "
        "x two devices; after every transition the fraction of every component in every well of every labware is "
        "compared with an exact (Fraction) mixing ledger.  non-trivial = the transition changed a composition; "
        "distinct = distinct canonical post-state"
    )
    assumptions = [
        "the order of the sub-moves of one transfer is taken from the A/D record pairs it emitted (what the robot executes); C01 checks that these address the named wells",
        "dispenses without composition are outside the statement ('dispenses of known composition') and outside the alphabet",
    ]

    def depth(self, tier):
        return 2 if tier == "quick" else 4

    def bounds(self, tier):
        return {"depth": self.depth(tier), "naming_configurations": list(SETS)}

    def configs(self, tier):
        out = []
        for sname, (mk, _) in SETS.items():
            for cls in ("EvoWorklist", "FluentWorklist"):
                cfg = {"set": sname, "labware": mk(), "worklists": {"w": {"cls": cls, "max_volume": 50, "auto_split": True}}}
                if sname == "N5":
                    cfg["fresh"] = True  # shared memory does not survive pickling: histories are re-executed
                out.append(cfg)
        return out

    def init(self, config):
        W = make_world(config)
        dev = DEVICE[config["worklists"]["w"]["cls"]]
        W["robot"] = Robot(dev, cm.geos(config), {s["name"]: contents_by_name(s, W) for s in config["labware"]})
        W["known"] = {s["name"]: {c for c, v in init_matrix(s).items() if v > 0} for s in config["labware"]}
        return W

    def core_events(self, W, config):
        return SETS[config["set"]][1]()[0]

    def full_events(self, W, config):
        c, f = SETS[config["set"]][1]()
        return c + f + [["naming"], ["combine"]]

    def canon(self, W, config):
        parts = []
        for n, lw in sorted(W["lw"].items()):
            parts.append(lw.volumes.astype(float).tobytes())
            for k in sorted(lw.composition):
                parts.append(k.encode())
                parts.append(lw.composition[k].tobytes())
        return b"|".join(parts) + W["robot"].canon().encode()

    def step(self, W, ev, config):
        if ev[0] == "naming":
            return {"outcome": "naming", "violations": naming_rule(), "expand": False}
        if ev[0] == "combine":
            return {"outcome": "combine", "violations": combine_rule(), "expand": False}
        wl = W["wl"]["w"]
        before = {n: ({k: a.copy() for k, a in lw.composition.items()}, lw.volumes) for n, lw in W["lw"].items()}
        out, exc = exec_event(W, ev)
        recs = list(wl)
        del wl[:]
        res = {"outcome": f"{ev[0]}:{out}", "violations": []}
        V = res["violations"]
        V += self.invariants(W)
        if out != "ok":
            res["expand"] = False
            if ev[0] in ("dispense", "add") and (ev[5] if ev[0] == "dispense" else ev[4]).get("compositions"):
                # only the pairs before the refused one may have had an effect
                lw, wells, vols, kw = (ev[2], ev[3], ev[4], ev[5]) if ev[0] == "dispense" else (ev[1], ev[2], ev[3], ev[4])
                g = cm.geos(config)[lw]
                robot = W["robot"]
                for (cell, v), comp in zip(cm.pairs_wells_vols(config, lw, wells, vols), kw["compositions"]):
                    if robot.vol[lw][cell] + v > Fraction(g.vmax):
                        break
                    robot._put(lw, cell, v, {k: Fraction(f) * v for k, f in comp.items()})
                lwo = W["lw"][lw]
                for cell, rv in robot.vol[lw].items():
                    if rv <= 0 or Fraction(float(lwo.volumes[cell])) != rv:
                        continue
                    mix = robot.mix[lw][cell]
                    for k in set(mix) | set(lwo.composition):
                        e = float(mix.get(k, 0) / rv)
                        got = float(lwo.composition[k][cell]) if k in lwo.composition else 0.0
                        if not abs(got - e) <= 1e-9:
                            V.append(("C05/mixture", f"after the refused {ev[0]} ({type(exc).__name__}) {lw}.{well_id(*cell)} '{k}': exact {e} vs reported {got}"))
            return res
        robot = W["robot"]
        robot.tip = None
        op = ev[0]
        if op in ("transfer", "distribute"):
            for r in recs:
                robot.feed(r)
        elif op in ("aspirate", "remove"):
            lw, wells, vols = (ev[2], ev[3], ev[4]) if op == "aspirate" else (ev[1], ev[2], ev[3])
            for cell, v in cm.pairs_wells_vols(config, lw, wells, vols):
                robot._take(lw, cell, v)
            # removing liquid never changes a composition
            for n, (comp, _) in before.items():
                now = W["lw"][n].composition
                if set(now) != set(comp) or any(now[k].tobytes() != comp[k].tobytes() for k in comp):
                    V.append(("C05/removal-changed-composition", f"{op} on {lw}: composition of {n} changed"))
        elif op in ("dispense", "add"):
            lw, wells, vols, kw = (ev[2], ev[3], ev[4], ev[5]) if op == "dispense" else (ev[1], ev[2], ev[3], ev[4])
            comps = kw["compositions"]
            for (cell, v), comp in zip(cm.pairs_wells_vols(config, lw, wells, vols), comps):
                robot._put(lw, cell, v, {k: Fraction(f) * v for k, f in comp.items()})
        # agreement with the exact ledger
        changed = False
        for s in config["labware"]:
            n = s["name"]
            lw = W["lw"][n]
            vol, comp = lw.volumes, lw.composition
            for cell, rv in robot.vol[n].items():
                if Fraction(float(vol[cell])) != rv:
                    V.append(("C05/volume", f"{n}.{well_id(*cell)}: ledger {float(rv)} vs Labware {vol[cell]}"))
                    continue
                if rv <= 0:
                    continue
                mix = robot.mix[n][cell]
                tot = 0.0
                for k in set(mix) | set(comp):
                    e = float(mix.get(k, 0) / rv)
                    got = float(comp[k][cell]) if k in comp else 0.0
                    tot += got
                    if not abs(got - e) <= 1e-9:
                        V.append(("C05/mixture", f"{n}.{well_id(*cell)} '{k}': exact {e} vs reported {got}"))
                if not abs(tot - 1.0) <= 1e-9:
                    V.append(("C05/not-normalised", f"{n}.{well_id(*cell)}: fractions sum to {tot}"))
            if any(comp[k].tobytes() != before[n][0].get(k, np.zeros(0)).tobytes() for k in comp):
                changed = True
        # conservation of every component by transfers
        if op == "transfer":
            tb, ta = totals(before_pairs(before)), totals((lw.composition, lw.volumes) for lw in W["lw"].values())
            for k in set(tb) | set(ta):
                b, a = tb.get(k, 0.0), ta.get(k, 0.0)
                if not abs(a - b) <= 1e-9 * max(1.0, abs(b)):
                    V.append(("C05/not-conserved", f"component '{k}': {b} before, {a} after the transfer"))
        if changed:
            res["nontrivial"] = self.canon(W, config)
        return res

    def invariants(self, W):
        V = []
        for n, lw in W["lw"].items():
            for k, a in lw.composition.items():
                if a.shape != lw.volumes.shape:
                    V.append(("C05/shape", f"{n} '{k}': composition shape {a.shape}"))
                if not np.all(np.isfinite(a)):
                    V.append(("C05/not-finite", f"{n} '{k}': {a.tolist()}"))
                elif np.any(a < -1e-12) or np.any(a > 1 + 1e-12):
                    V.append(("C05/out-of-range", f"{n} '{k}': {a.tolist()}"))
        return V


def before_pairs(before):
    return [(c, v) for c, v in before.values()]


def totals(pairs):
    out = {}
    for comp, vol in pairs:
        for k, a in comp.items():
            out[k] = out.get(k, 0.0) + float(np.sum(a * vol))
    return out


def rt_labware_trough(vr, C):
    from ..world import rt

    return rt.Labware("L", 1, C, min_volume=0, max_volume=100, initial_volumes=[[10.0 * (c + 1) for c in range(C)]], virtual_rows=vr)


def combine_rule():
    """the public mixing function itself: exact volumetric mixing, and a pure function of its arguments (the
    dictionaries a caller hands in are the caller's; a user predicts several mixtures from the same stock)"""
    from fractions import Fraction as F

    from robotools.liquidhandling.composition import combine_composition

    V = []
    comps = [{"a": 1.0}, {"a": 0.5, "b": 0.5}, {"b": 0.25, "c": 0.75}, {}]
    for va in (0.0, 30.0, 100.0):
        for vb in (7.5, 50.0):
            for ca in comps:
                for cb in comps:
                    a, b = dict(ca), dict(cb)
                    try:
                        r1 = combine_composition(va, a, vb, b)
                        r2 = combine_composition(va, a, vb, b)  # the same dictionaries once more
                    except Exception as e:
                        V.append(("C05/mixture", f"combine_composition({va}, {ca}, {vb}, {cb}) raised {type(e).__name__}: {e}"))
                        continue
                    want = {}
                    for k in set(ca) | set(cb):
                        want[k] = (F(ca.get(k, 0)) * F(va) + F(cb.get(k, 0)) * F(vb)) / (F(va) + F(vb))
                    for nm, r in (("", r1), (" (second call with the same dictionaries)", r2)):
                        if r is None or set(r) != set(want) or any(abs(F(float(r[k])) - want[k]) > F(1, 10**12) for k in want):
                            V.append(("C05/mixture", f"combine_composition({va}, {ca}, {vb}, {cb}){nm} -> {r}, exact mixing gives { {k: float(v) for k, v in want.items()} }"))
                            break
                    if a != ca or b != cb:
                        V.append(("C05/mixture", f"combine_composition({va}, {ca}, {vb}, {cb}) changed the dictionaries it was given: {a}, {b}"))
    return V[:6]


def naming_rule():
    """default component names for every geometry 1..4 x 1..4 and troughs with 1..3 columns"""
    V = []
    for R in range(1, 5):
        for C in range(1, 5):
            init = [[(r + c) % 2 * 10 + (5 if (r, c) == (0, 0) else 0) for c in range(C)] for r in range(R)]
            spec = plate("L", R, C, 0, 100, init)
            lw = build_labware(spec)
            exp = default_component_names(spec)
            for (r, c), nm in exp.items():
                if nm is None:
                    continue
                a = lw.composition.get(nm)
                if a is None or a[r, c] != 1:
                    V.append(("C05/default-name", f"plate {R}x{C} well {well_id(r, c)}: expected 100 % '{nm}', composition keys {sorted(lw.composition)}"))
            if R > 1 and len({n for n in exp.values()}) != len(exp):
                V.append(("C05/default-name", f"plate {R}x{C}: names not distinct"))
            for k, a in lw.composition.items():
                for r in range(R):
                    for c in range(C):
                        if (a[r, c] != 0) != (exp.get((r, c), 0) == k and init[r][c] > 0) and exp.get((r, c), 0) is not None:
                            V.append(("C05/default-name", f"plate {R}x{C}: component '{k}' has fraction {a[r, c]} in {well_id(r, c)}"))
    for C in range(2, 5):
        for vr in (1, 2, 4):
            # a multi-column trough declared through the generic constructor: one distinct component per column
            lw = rt_labware_trough(vr, C)
            comps = [k for k, a in lw.composition.items() if (a != 0).any()]
            if len(comps) != C or any(sorted(float(x) for x in lw.composition[k].ravel()) != [0.0] * (C - 1) + [1.0] for k in comps):
                V.append(("C05/default-name", f"Labware(rows=1, columns={C}, virtual_rows={vr}) with filled columns has components {sorted(lw.composition)}"))
    for C in range(1, 4):
        for vr in (1, 3):
            init = [10 * (c + 1) if c != 1 else 0 for c in range(C)]
            spec = trough("L", vr, C, 0, 100, init)
            lw = build_labware(spec)
            exp = default_component_names(spec)
            for (r, c), nm in exp.items():
                a = lw.composition.get(nm)
                if a is None or a[r, c] != 1:
                    V.append(("C05/default-name", f"trough {vr}x{C} column {c + 1}: expected 100 % '{nm}', composition keys {sorted(lw.composition)}"))
            if len(lw.composition) != len(exp):
                V.append(("C05/default-name", f"trough {vr}x{C}: components {sorted(lw.composition)} vs expected {sorted(exp.values())}"))
    return V
