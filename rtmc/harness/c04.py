"""C04 - exact volume bookkeeping per real well, including trough aliasing."""
from fractions import Fraction

from ..ref.numbering import flat_f, well_id
from ..world import exec_event, geo_of, init_matrix, make_world, plate, ref_vols, ref_wells, trough
from . import common as cm


def fr(x):
    """exact value of a reported volume; a non-finite volume equals nothing"""
    import math

    x = float(x)
    return Fraction(x) if math.isfinite(x) else ("not finite", repr(x))


def WIDE():
    return [
        plate("P", 2, 3, 0, 1e6, [[1000, 1001, 1002], [1003, 1004, 1005]]),
        dict(plate("Q", 3, 2, 0, 1e6, [[500, 500], [500, 500], [500, 500]]), np="float32"),
        dict(trough("T", 3, 2, 0, 1e6, [4000, 5000]), np="int64"),
        dict(trough("U", 1, 3, 0, 1e6, [300, 0, 200]), generic=True),
    ]


def TIGHT():
    return [
        plate("P", 2, 3, 10, 100, 90),
        plate("Q", 3, 2, 0, 60, [[0, 40], [10, 0], [55, 0]]),
        trough("T", 3, 2, 20, 400, [95, 35]),
        trough("U", 1, 3, 0, 50, [30, 0, 20]),
    ]


def SHARED():
    """two plates and two troughs constructed from the same float64 array objects (replicates from a template)"""
    a = [[1000, 1001, 1002], [1003, 1004, 1005]]
    t = [4000.0, 5000.0]
    return [
        dict(plate("P", 2, 3, 0, 1e6, a), share="plate"),
        dict(plate("Q", 2, 3, 0, 1e6, a), share="plate"),
        dict(trough("T", 3, 2, 0, 1e6, t), share="trough"),
        dict(trough("U", 2, 2, 0, 1e6, t), share="trough"),
    ]


def transfers(config):
    """transfers via both worklists with 2-D / broadcast arguments (column-major pairing)"""
    if config["set"] == "SHARED":
        return []
    v = 7.5 if config["set"] == "TIGHT" else 1.5
    ev = []
    for wl in ("e", "f"):
        ev += [
            ["transfer", wl, "P", {"$w2d": ["P", 0, 2, 0, 2]}, "Q", {"$w2d": ["Q", 0, 2, 0, 2]}, {"$a": [[v, v + 1], [v + 2, v + 3]]}, {}],
            ["transfer", wl, "P", {"$w2d": ["P", 0, 2, 0, 3]}, "Q", {"$w2d": ["Q", 0, 3, 0, 2]}, {"$a": [[v, v + 1, v + 2], [v + 3, v + 4, v + 5]]}, {}],
            ["transfer", wl, "T", {"$w2d": ["T", 0, 3, 0, 2]}, "P", {"$w2d": ["P", 0, 2, 0, 3]}, {"$a": [[v, v + 1], [v + 2, v + 3], [v + 4, v + 5]]}, {}],
            ["transfer", wl, "Q", ["C02", "A01", "C02"], "U", ["A01", "A03", "A01"], [v, v + 1, v + 2], {}],
            ["transfer", wl, "T", "A01", "Q", {"$w2d": ["Q", 0, 3, 0, 2]}, {"$a": [[v, v + 1], [v + 2, v + 3], [v + 4, v + 5]]}, {}],
        ]
        if config["set"] == "WIDE":
            # above the worklist's max_volume of 950: [500, 500] next to [800], [475.5, 475.5] next to [950]
            ev += [
                ["transfer", wl, "T", ["A01", "B01"], "P", ["A01", "B01"], [1000, 800], {}],
                ["transfer", wl, "T", ["A02", "B02", "C02"], "Q", ["A01", "B01", "C01"], [951, 950, 1902], {}],
                ["transfer", wl, "P", ["A02", "B02"], "Q", ["A02", "A02"], [1000, 999.5], {"partition_by": "destination"}],
                # five and more partitions (integer volumes a few microlitres below a multiple of max_volume)
                ["transfer", wl, "T", ["A02"], "P", ["B03"], [4747], {}],
                ["transfer", wl + "7", "T", ["A01", "B01", "C01"], "P", ["A01", "B01", "A02"], [32, 39, 46], {}],
                ["transfer", wl + "7", "Q", ["B02"], "U", ["A02"], [60.5], {}],
                # volumes handed over in small integer dtypes (products and negations must not wrap around)
                ["transfer", wl, "T", ["A01", "B02"], "P", ["A01", "B01"], {"$npa": ["uint8", [200, 100]]}, {}],
                ["distribute", wl, "T", 0, "P", ["A01", "B02", "A03"], {"volume": {"$nps": ["uint8", 100]}}],
                ["distribute", wl, "T", 1, "Q", ["C02", "A01"], {"volume": {"$nps": ["int8", 100]}}],
                ["add", "P", ["A01", "B01"], {"$npa": ["uint8", [200, 100]]}, {}],
                ["remove", "P", ["A01", "A01"], {"$npa": ["uint8", [200, 200]]}, {}],
                ["remove", "T", "B02", {"$nps": ["uint16", 300]}, {}],
                ["aspirate", wl, "Q", ["A01"], {"$nps": ["uint8", 200]}, {}],
                ["dispense", wl, "T", ["A01", "B01"], {"$npa": ["int8", [100, 100]]}, {}],
                # one composition per well, some of them unknown (None)
                ["add", "Q", ["A01", "B01", "C02"], [1.5, 2.5, 3.5], {"compositions": [{"x": 1.0}, {"$none": 1}, {"y": 1.0}]}],
                ["dispense", wl, "P", ["A01", "B02"], [1.5, 2.5], {"compositions": [{"x": 1.0}, {"$none": 1}]}],
                # volumes that round to 0.00 in the record are still booked
                ["transfer", wl, "P", ["A01", "B01"], "Q", ["A01", "B01"], [0.00390625, 1.5], {}],
                ["transfer", wl, "T", ["A02"], "U", ["A01"], [0.001953125], {}],
                # numpy.ma masked arrays as volumes
                ["add", "P", ["A01", "B01", "A02"], {"$ma": [[1.5, 2.5, 3.5], [False, True, False]]}, {}],
                ["remove", "Q", ["A01", "C02"], {"$ma": [[1.5, 2.5], [True, False]]}, {}],
                ["aspirate", wl, "P", ["B03", "A01"], {"$ma": [[1.5, 2.5], [False, True]]}, {}],
                ["dispense", wl, "T", ["A01", "B02"], {"$ma": [[1.5, 2.5], [True, True]]}, {}],
            ]
    # distribute: the source column is charged once per listed destination well (repeats and trough aliases included)
    for wl in ("e", "f"):
        ev += [
            ["distribute", wl, "T", 0, "P", ["A01", "B02", "A03"], {"volume": v}],
            ["distribute", wl, "T", 1, "Q", ["C02", "C02", "A01"], {"volume": v + 1}],
            ["distribute", wl, "T", 0, "U", ["A01", "A03"], {"volume": v}],
            ["distribute", wl, "T", 1, "T", ["A01", "B01", "C01"], {"volume": v}],
            ["distribute", wl, "T", 0, "T", ["B02", "C02"], {"volume": v}],  # into the second column of a trough with several virtual rows
            ["distribute", wl, "T", 0, "Q", {"$w2d": ["Q", 0, 3, 0, 2]}, {"volume": v + 2}],
        ]
    return ev


def shapes(spec):
    """(label, wells argument, number of addressed elements, 2-D shape or None)"""
    g = geo_of(spec)
    n = spec["name"]
    R, C = g.idrows, g.cols
    ids = [[well_id(r, c) for c in range(C)] for r in range(R)]
    out = [
        ("scalar", ids[0][0], 1, None),
        ("1-list", [ids[R - 1][C - 1]], 1, None),
        ("column", [ids[r][0] for r in range(R)], R, None),
        ("row", [ids[0][c] for c in range(C)], C, None),
        ("reversed", [ids[r][c] for c in range(C) for r in range(R)][::-1], R * C, None),
        ("repeat", [ids[0][0], ids[R - 1][C - 1], ids[0][0]], 3, None),
        ("full-2d", {"$w2d": [n, 0, R, 0, C]}, R * C, (R, C)),
        ("col-slice-2d", {"$w2d": [n, 0, R, 0, 1]}, R, (R, 1)),
        ("row-slice-2d", {"$w2d": [n, 0, 1, 0, C]}, C, (1, C)),
        ("block-2d", {"$w2d": [n, 0, min(2, R), 0, min(2, C)]}, min(2, R) * min(2, C), (min(2, R), min(2, C))),
        ("nested-list-2d", {"$a": [[ids[r][c] for c in range(min(2, C))] for r in range(min(2, R))]}, min(2, R) * min(2, C), (min(2, R), min(2, C))),
        ("fortran-2d", {"$af": [[ids[r][c] for c in range(C)] for r in range(R)]}, R * C, (R, C)),
        ("own-wells", {"$wells": n}, R * C, (R, C)),  # lw.add(lw.wells, ...): the labware's own array object
    ]
    if g.is_trough and R > 1:
        out.append(("alias-pair", [ids[0][0], ids[1][0]], 2, None))
        out.append(("alias-all+other", [ids[r][0] for r in range(R)] + [ids[R - 1][C - 1]], R + 1, None))
    return out


def volume_args(k, shape2d, base, zero=False):
    """volume arguments for k addressed elements: scalar, flat list of distinct dyadic values, 2-D array"""
    vals = [base + 0.5 * i for i in range(k)]
    if zero and k > 1:
        vals[1] = 0
    out = [base]
    if k == 1:
        out.append([base])
    else:
        out.append(vals)
    if shape2d:
        r, c = shape2d
        out.append({"$a": [[vals[i * c + j] for j in range(c)] for i in range(r)]})
        out.append({"$af": [[vals[i * c + j] for j in range(c)] for i in range(r)]})
    return out


def all_events(config, full, thin=False):
    """full alphabet; thin=True keeps every third shape/volume/operation combination (used from non-initial
    states in the quick tier; the initial states always get the complete alphabet)"""
    ev = []
    tight = config["set"] == "TIGHT"
    for spec in config["labware"]:
        n = spec["name"]
        for si, (lab, wells, k, s2) in enumerate(shapes(spec)):
            for vi, vols in enumerate(volume_args(k, s2, 7.5 if tight else 1.5, zero=(si % 2 == 1))):
                for oi, op in enumerate(("add", "remove", "aspirate", "dispense")):
                    is_core = (si + vi + oi) % 7 == 0 and lab in ("column", "repeat", "block-2d", "alias-pair", "scalar", "reversed")
                    if not full and not is_core:
                        continue
                    if full and thin and not is_core and (si + 2 * vi + oi) % 3 and lab != "own-wells":
                        continue
                    if op in ("add", "remove"):
                        ev.append([op, n, wells, vols, {}])
                    else:
                        ev.append([op, "e" if (si + oi) % 2 else "f", n, wells, vols, {}])
    # volumes that need more than 24 bits next to the well contents (exact in double precision only)
    for spec in config["labware"]:
        if spec.get("np") and (full or spec["name"] == "Q"):
            n = spec["name"]
            w0 = "A01"
            for op in ("add", "remove"):
                ev.append([op, n, [w0, w0], [2.0**-20, 2.0**-18], {}])
            ev.append(["dispense", "e", n, w0, 2.0**-20 + 2.0**-21, {}])
    return ev


class Harness(cm.BaseA):
    id = "C04"
    rule = (
        "every sequence of <= depth core calls of add / remove / aspirate / dispense followed by any one call of the "
        "full alphabet: 4 labware (2 plates, 2 troughs) x 11-13 well-argument shapes (scalar id, lists, repeats, "
        "reversed, trough aliases, 2-D slices and nested lists) x scalar / list / 2-D volume arguments with pairwise "
        "distinct dyadic entries (some zero) x 4 call sites, on wide and on tight limits.  Compared with an exact "
        "Fraction ledger per real well.  non-trivial = accepted call that changed a volume; distinct = canonical post-state"
    )
    assumptions = ["after a rejected multi-well call the statement fixes only accepted additions: 'nothing applied' and 'pairs before the refused one applied' are both accepted and the ledger follows the observed one"]

    def depth(self, tier):
        return 2 if tier == "quick" else 3

    def bounds(self, tier):
        return {"depth": self.depth(tier), "labware_sets": ["WIDE", "TIGHT"]}

    def configs(self, tier):
        wls = {
            "e": {"cls": "EvoWorklist", "max_volume": 950},
            "f": {"cls": "FluentWorklist", "max_volume": 950},
            "e7": {"cls": "EvoWorklist", "max_volume": 7},
            "f7": {"cls": "FluentWorklist", "max_volume": 7},
        }
        return [
            {"set": "WIDE", "labware": WIDE(), "worklists": wls},
            {"set": "TIGHT", "labware": TIGHT(), "worklists": wls},
            {"set": "SHARED", "labware": SHARED(), "worklists": wls},
        ]

    def init(self, config):
        W = make_world(config)
        W["ledger"] = {s["name"]: {c: Fraction(v) for c, v in init_matrix(s).items()} for s in config["labware"]}
        W["path"] = []
        return W

    def core_events(self, W, config):
        return all_events(config, False)

    def full_events(self, W, config):
        thin = self.tier == "quick" and len(W.get("path", [])) + W.get("n", 0) > 0
        return all_events(config, True, thin) + transfers(config)

    def canon(self, W, config):
        return b"|".join(lw.volumes.astype(float).tobytes() for _, lw in sorted(W["lw"].items()))

    def step(self, W, ev, config):
        op = ev[0]
        W["n"] = W.get("n", 0) + 1
        if config["set"] == "SHARED":
            # memory shared between live arrays does not survive pickling: rebuild fresh objects and
            # replay the history so that aliasing between labware (or with the caller's array) stays visible
            Wf = make_world(config)
            for e in W["path"]:
                exec_event(Wf, e)
                for w in Wf["wl"].values():
                    del w[:]
            W["lw"], W["wl"], W["shared"] = Wf["lw"], Wf["wl"], Wf["shared"]
            W["path"] = W["path"] + [ev]
        if op == "transfer":
            return self.step_transfer(W, ev, config)
        if op == "distribute":
            return self.step_distribute(W, ev, config)
        lw, wells, vols = (ev[1], ev[2], ev[3]) if op in ("add", "remove") else (ev[2], ev[3], ev[4])
        pre = {n: L.volumes for n, L in W["lw"].items()}
        shared0 = {k: a.copy() for k, a in W.get("shared", {}).items()}
        out, exc = exec_event(W, ev)
        for wl in W["wl"].values():
            del wl[:]
        post = {n: L.volumes for n, L in W["lw"].items()}
        res = {"outcome": f"{op}:{out}", "violations": []}
        V = res["violations"]
        sign = 1 if op in ("add", "dispense") else -1
        pairs = cm.pairs_wells_vols(config, lw, wells, vols)
        led = W["ledger"]
        # frame condition: other labware bit-identical
        for n in post:
            if n != lw and post[n].tobytes() != pre[n].tobytes():
                V.append(("C04/frame", f"{op} on {lw} changed {n}"))
        for k, a in W.get("shared", {}).items():
            if a.tobytes() != shared0[k].tobytes():
                V.append(("C04/frame", f"{op} on {lw} changed the caller's initial_volumes array '{k}'"))
        addressed = {c for c, _ in pairs}
        for c in led[lw]:
            if c not in addressed and float(post[lw][c]).hex() != float(pre[lw][c]).hex():
                V.append(("C04/frame", f"{op} on {lw}: unaddressed well {well_id(*c)} changed {pre[lw][c]!r} -> {post[lw][c]!r}"))
        if out == "ok":
            mask = flat_f(vols["$ma"][1]) if isinstance(vols, dict) and "$ma" in vols else None
            if mask is not None:
                # a masked volume entry either counts with its data value or not at all - but the same for every entry
                alt = dict(led[lw])
                for (c, v), m in zip(pairs, mask):
                    alt[c] += 0 if m else sign * v
                if all(fr(post[lw][c]) == x for c, x in alt.items()):
                    pairs = [(c, 0 if m else v) for (c, v), m in zip(pairs, mask)]
            for c, v in pairs:
                led[lw][c] += sign * v
            bad = [(well_id(*c), float(x), float(post[lw][c])) for c, x in led[lw].items() if fr(post[lw][c]) != x]
            if bad:
                V.append(("C04/ledger", f"{op} {lw}: (well, exact, reported) {bad[:4]}"))
                for c in led[lw]:
                    led[lw][c] = fr(post[lw][c])
            if post[lw].tobytes() != pre[lw].tobytes():
                res["nontrivial"] = self.canon(W, config)
        else:
            # rejected: either nothing applied or exactly the pairs before the first refused one
            ok_states = [dict(led[lw])]
            cur = dict(led[lw])
            g = geo_of(cm.spec_of(config, lw))
            for c, v in pairs:
                nv = cur[c] + sign * v
                if nv > Fraction(g.vmax) or nv < Fraction(g.vmin):
                    break
                cur[c] = nv
            ok_states.append(cur)
            obs = {c: fr(post[lw][c]) for c in led[lw]}
            if obs not in ok_states:
                V.append(("C04/rejected-call-state", f"{op} {lw} raised {type(exc).__name__}; volumes {post[lw].tolist()} are neither the previous state nor the state after the accepted pairs"))
            led[lw] = obs
            res["expand"] = config["set"] == "TIGHT"
        return res

    def step_transfer(self, W, ev, config):
        _, wl, src, sw, dst, dw, vols, kw = ev
        pre = {n: L.volumes for n, L in W["lw"].items()}
        out, exc = exec_event(W, ev)
        for w in W["wl"].values():
            del w[:]
        post = {n: L.volumes for n, L in W["lw"].items()}
        res = {"outcome": f"transfer:{out}", "violations": [], "expand": False}
        V = res["violations"]
        led = W["ledger"]
        if out == "ok":
            for s_, d_, v in cm.triples(config, src, sw, dst, dw, vols):
                led[src][s_] -= v
                led[dst][d_] += v
            for n in post:
                bad = [(well_id(*c), float(x), float(post[n][c])) for c, x in led[n].items() if fr(post[n][c]) != x]
                if bad:
                    V.append(("C04/ledger", f"transfer {src}->{dst} via {wl}: {n} (well, exact, reported) {bad[:4]}"))
            res["nontrivial"] = self.canon(W, config) + b"t"
        return res

    def step_distribute(self, W, ev, config):
        _, wl, src, col, dst, dw, kw = ev
        out, exc = exec_event(W, ev)
        for w in W["wl"].values():
            del w[:]
        post = {n: L.volumes for n, L in W["lw"].items()}
        res = {"outcome": f"distribute:{out}", "violations": [], "expand": False}
        V = res["violations"]
        led = W["ledger"]
        if out == "ok":
            g = geo_of(cm.spec_of(config, dst))
            wells = flat_f(ref_wells(dw, config))
            v = Fraction(ref_vols(kw["volume"]))
            led[src][(0, col)] -= v * len(wells)
            for w_ in wells:
                led[dst][g.real(w_)] += v
            for n in post:
                bad = [(well_id(*c), float(x), float(post[n][c])) for c, x in led[n].items() if fr(post[n][c]) != x]
                if bad:
                    V.append(("C04/ledger", f"distribute {src}[{col}]->{dst} {wells} via {wl}: {n} (well, exact, reported) {bad[:4]}"))
            res["nontrivial"] = self.canon(W, config) + b"d"
        return res
