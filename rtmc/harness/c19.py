"""C19 - get_trough_wells cycles through the given wells and returns exactly n."""
import numpy as np

from ..ref.numbering import flat_f, well_id
from ..world import rt
from . import common as cm


def collections_for(L):
    """(kind, nested python list) for every way of presenting L wells"""
    flat = [well_id(i, 0) for i in range(L)]
    out = [("list", flat), ("tuple", flat), ("array1d", flat)]
    for r in range(1, L + 1):
        if L % r == 0:
            c = L // r
            if r > 1 and c > 1 and L <= 16:
                # the same wells in row-major order as a flat array, asked for just before the 2-D block
                out.append((f"flatC:{r}x{c}", [well_id(i, j) for i in range(r) for j in range(c)]))
            out.append((f"array2d:{r}x{c}", [[well_id(i, j) for j in range(c)] for i in range(r)]))
            if 1 < r and L <= 12:
                out.append((f"nested:{r}x{c}", [[well_id(i, j) for j in range(c)] for i in range(r)]))  # e.g. trough.wells.tolist()
    if 2 <= L <= 12:
        # ndarray subclasses: a numpy matrix (always 2-D) and masked arrays (the mask is dropped, like numpy.array does)
        out.append(("matrix", [flat]))
        out.append(("masked", flat))
    if 2 <= L <= 6:
        # IDs of different length (columns 99 / 100 of a very wide labware)
        out.append(("wide", [well_id(i % 2, 98 + i // 2) for i in range(L)]))
        out.append(("wide-array", [well_id(0, 98 + i) for i in range(L)]))
    if L >= 2:
        # a well may be listed several times (two tips into the same compartment)
        out.append(("repeats", [flat[i // 2] for i in range(L)]))
        out.append(("repeats-array", [flat[(i * 2) % max(1, L - 1)] for i in range(L)]))
    return out


class Harness(cm.BaseB):
    id = "C19"
    rule = (
        "every well collection of length 1..26 as list / tuple / 1-D array / every 2-D factorisation (e.g. "
        "trough.wells, a column slice; up to 12 wells also as nested Python lists) / with repeated wells x every n in 0..3*len+2, plus invalid n (-1, 1.0, '2', None) and the empty "
        "collection; non-trivial = n > len (wells are reused); distinct = distinct (collection, n)"
    )
    assumptions = ["booleans and numpy integer scalars as n are outside the alphabet"]

    def bounds(self, tier):
        return {"max_len": 26, "n_max": "3*len+2"}

    def chunks(self, tier):
        return [{"L": L} for L in range(0, 27)]

    def cases(self, chunk):
        L = chunk["L"]
        if L == 0:
            for kind in ("list", "array1d", "array2d", "array2d-R0", "tuple"):
                for n in (0, 1, 3):
                    yield {"L": 0, "kind": kind, "n": n}
            return
        for kind, nested in collections_for(L):
            for n in range(0, 3 * L + 3):
                yield {"L": L, "kind": kind, "n": n}
            for bad in (-1, -5, 1.0, "2", {"$none": 1}, 2.5):
                yield {"L": L, "kind": kind, "n": bad}
            if L in (1, 2, 3, 8, 26) and kind in ("list", "array1d"):
                for n in (1000, 1536, 4097, 20000, 100001):
                    yield {"L": L, "kind": kind, "n": n}

    def one(self, case):
        L, kind, n = case["L"], case["kind"], case["n"]
        if isinstance(n, dict):
            n = None
        if L == 0:
            arg = {"list": [], "tuple": (), "array1d": np.array([]), "array2d": np.zeros((0, 3), dtype=str), "array2d-R0": np.zeros((8, 0), dtype="<U3")}[kind]
            try:
                r = rt.get_trough_wells(n, arg)
            except Exception as e:
                return f"empty:raised:{type(e).__name__}", None, []
            return "empty:ok", None, [("C19/empty-collection-accepted", f"get_trough_wells({n}, empty {kind}) -> {r!r}")]
        nested = dict(collections_for(L))[kind]
        if kind in ("list", "repeats", "wide") or kind.startswith("nested"):
            arg = [list(x) if isinstance(x, list) else x for x in nested]
        elif kind == "tuple":
            arg = tuple(nested)
        elif kind == "matrix":
            import warnings

            with warnings.catch_warnings():
                warnings.simplefilter("ignore")
                arg = np.asmatrix(np.array(nested))
        elif kind == "masked":
            arg = np.ma.MaskedArray(np.array(nested), mask=[i % 2 == 1 for i in range(L)])
        else:
            arg = np.array(nested)
        ref = flat_f(nested)
        valid = isinstance(n, int) and not isinstance(n, bool) and n >= 0
        if valid and kind in ("list", "array1d") and L > 1:
            # the same object was already used for an earlier call with another n
            import copy

            before = copy.deepcopy(arg)
            try:
                rt.get_trough_wells((n + L // 2 + 1) % (2 * L + 1), arg)
            except Exception:
                pass
            same = (list(arg) == list(before)) and len(arg) == len(before)
            if not same:
                return "input-mutated", None, [("C19/caller-collection-modified", f"{kind} of {L} wells is {list(arg)[:8]}... after a call")]
        try:
            r = rt.get_trough_wells(n, arg)
        except Exception as e:
            if valid:
                return "valid:raised", None, [("C19/valid-call-raised", f"n={n} {kind} len {L}: {type(e).__name__}: {e}")]
            return f"invalid:raised:{type(e).__name__}", None, []
        if not valid:
            return "invalid:accepted", None, [("C19/invalid-n-accepted", f"n={n!r} {kind} len {L} -> {r!r}")]
        V = []
        if isinstance(r, list) and n > 0:
            # the caller reverses / empties the list it got; an identical later request is unaffected
            first = list(r)
            r.reverse()
            r.append("Z99")
            del r[: max(1, len(r) // 2)]
            r2 = rt.get_trough_wells(n, arg)
            if [str(x) for x in r2] != [str(x) for x in first]:
                V.append(("C19/order", f"n={n} {kind} len {L}: after the caller edited the returned list the same request gives {list(r2)[:8]}... instead of {first[:8]}..."))
            r = first
        if not isinstance(r, list):
            V.append(("C19/not-a-list", f"returned {type(r).__name__}"))
        if len(r) != n:
            V.append(("C19/length", f"n={n} {kind} len {L}: returned {len(r)} wells"))
        else:
            want = [ref[i % L] for i in range(n)]
            if [str(x) for x in r] != want:
                V.append(("C19/order", f"n={n} {kind} len {L}: returned {list(r)[:8]}..., expected {want[:8]}..."))
        return ("reuse" if n > L else "fit"), (f"{L}/{kind}/{n}" if n > L else None), V
