"""C16 - EVO and Fluent worklists differ only in trough well numbers."""
import numpy as np

from ..world import exc_is, exec_event, make_world, rt
from . import c01, c03
from . import common as cm


def trough_rows():
    """distribute into several virtual rows of one trough column (same Fluent position)"""
    return [
        c01.R("T", 1, "T", ["A01", "B01"], 7.5),
        c01.R("T", 0, "T", ["A02", "B02", "C02"], 7.5),
        c01.R("T", 1, "T", ["C01", "A01"], 30, multi_disp=2),
    ]


def multiples():
    """volumes that are exact multiples of the worklist's max_volume of 50 (large-volume notes in the histories)"""
    return [
        c01.T("T", ["A01"], "Q", ["C02"], [100]),
        c01.T("T", ["A01", "B02"], "Q", ["A01", "B01"], [150, 50]),
        c01.T("T", ["A02"], "T", ["A01"], [100], wash_scheme="reuse"),
        # trough to trough with the columns in opposite order on the two sides (automatic partitioning)
        c01.T("T", ["A01", "B02"], "T", ["C02", "A01"], [30, 7.5]),
        c01.T("T", ["A02", "A01"], "T", ["B01", "B02"], [7.5, 30], wash_scheme="flush"),
    ]


def misc():
    return [
        ["call", "w", "comment", ["hello"], {}],
        ["call", "w", "wash", [], {"scheme": 3}],
        ["call", "w", "wash", [5], {}],
        ["call", "w", "flush", [], {}],
        ["call", "w", "commit", [], {}],
        ["call", "w", "decontaminate", [], {}],
    ]


class Harness(cm.BaseA):
    id = "C16"
    rule = (
        "synchronous product of an EvoWorklist world and a FluentWorklist world with identical labware: every "
        "sequence of <= depth core operations (failing ones included, at most two per execution) followed by any one "
        "operation of the full alphabet (C01's shapes/wash schemes/partition modes + C03's designed failures + "
        "comment/wash/flush/commit) is applied to both; labware state, history, outcome class and records are "
        "compared pairwise.  non-trivial = records were emitted or the operation was refused; distinct = canonical "
        "pair state + event"
    )
    assumptions = ["wash_scheme=None (deprecated, documented to differ) is not in the alphabet"]

    def depth(self, tier):
        return 2 if tier == "quick" else 3

    def bounds(self, tier):
        return {"depth": self.depth(tier), "sets": ["W1", "W3", "W4"], "auto_split": [True, False]}

    def configs(self, tier):
        out = []
        for s in ("W1", "W3"):
            for asplit in (True, False):
                out.append({"set": s, "labware": c01.SETS[s][0](), "auto_split": asplit})
        out.append({"set": "W4", "labware": c01.SETS["W4"][0](), "auto_split": True})
        # warnings turned into errors while operations run (python -W error, pytest filterwarnings = error)
        out.append({"set": "W3", "labware": c01.SETS["W3"][0](), "auto_split": True, "werror": True, "maxdepth": 1})
        # a second labware object that carries the name of the first (replicate plates with one worktable label)
        from ..world import plate

        out.append({"set": "W1", "labware": c01.SETS["W1"][0]() + [dict(plate("P2", 2, 3, 10, 200, 100), label="P")], "auto_split": True, "same_name": True, "maxdepth": 1})
        return out

    def _sub(self, config, cls):
        return make_world({"labware": config["labware"], "worklists": {"w": {"cls": cls, "max_volume": 50, "auto_split": config["auto_split"]}}})

    def init(self, config):
        return {"E": self._sub(config, "EvoWorklist"), "F": self._sub(config, "FluentWorklist"), "B": self._sub(config, "BaseWorklist"), "failed": 0}

    def core_events(self, W, config):
        if W["failed"] >= 2 or W.get("n", 0) >= config.get("maxdepth", 99):
            return []
        if config.get("same_name"):
            T = c01.T
            return [T("P", ["A01"], "P2", ["A01"], [30]), T("P2", ["A01", "B01"], "P", ["A01", "B01"], [7.5, 70]), T("P", ["A02"], "Q", ["A01"], [120]), T("P2", ["B03"], "P2", ["A03"], [30])]
        if config["set"] == "W4":
            return c01.SETS["W4"][1]()
        extra = c03.failing_W1()[:6] if config["set"] == "W1" else c03.failing_W3()[:6]
        return c01.SETS[config["set"]][1]() + extra + misc()[:2] + trough_rows()[:1]

    def full_events(self, W, config):
        if config["set"] == "W4":
            return c01.SETS["W4"][2]("quick") + misc()
        if config.get("same_name"):
            T = c01.T
            return self.core_events({"failed": 0}, config) + [T("P", ["A01", "B01", "A02"], "P2", ["A01", "A01", "B02"], [70, 0, 120]), T("P2", ["A01"], "P", ["B02"], [0]), c01.R("T", 0, "P2", ["A01", "B01"], 30)]
        f = c03.failing_W1() if config["set"] == "W1" else c03.failing_W3()
        life = [["lifetime", ["A02", "B02", "B03"]], ["lifetime", ["B01", "A03"]]] if config["set"] == "W1" and not W.get("n") else []
        return c01.SETS[config["set"]][2]("quick") + f + misc() + trough_rows() + multiples() + life

    def canon(self, W, config):
        parts = []
        for k in ("E", "F"):
            for n, lw in sorted(W[k]["lw"].items()):
                parts.append(lw.volumes.astype(float).tobytes())
                for c in sorted(lw.composition):
                    parts += [c.encode(), lw.composition[c].tobytes()]
        return b"|".join(parts) + bytes([W["failed"]])

    def step_lifetime(self, ev, config):
        """a pair of worklists that outlives the labware it is used with (cm.lifetime_scenario)"""
        wls = {"E": rt.EvoWorklist(max_volume=50, auto_split=config["auto_split"]), "F": rt.FluentWorklist(max_volume=50, auto_split=config["auto_split"])}

        def check(recs, gs, gd):
            if len(recs["E"]) != len(recs["F"]):
                return "the two devices emitted a different number of records"
            for a, b in zip(recs["E"], recs["F"]):
                if self.rec_diff(a, b, {"S": gs, "D": gd}):
                    return "records differ in more than the position field of trough records"
            return None

        res = {"outcome": "lifetime:ok", "violations": [], "expand": False}
        try:
            problem = cm.lifetime_scenario(wls, ev[1], check)
        except Exception as e:
            problem = f"raised {type(e).__name__}"
        if problem:
            res["violations"].append(("C16/records", f"one EvoWorklist and one FluentWorklist used with labware objects that were created and dropped one after the other: {problem}"))
        res["nontrivial"] = repr(ev).encode()
        return res

    def step(self, W, ev, config):
        if ev[0] == "lifetime":
            return self.step_lifetime(ev, config)
        W["n"] = W.get("n", 0) + 1
        geos = cm.geos(config)
        pre = self.canon(W, config)
        import warnings

        with warnings.catch_warnings():
            if config.get("werror"):
                warnings.simplefilter("error")
            oe, xe = exec_event(W["E"], ev)
            of, xf = exec_event(W["F"], ev)
        re_, rf = list(W["E"]["wl"]["w"]), list(W["F"]["wl"]["w"])
        del W["E"]["wl"]["w"][:]
        del W["F"]["wl"]["w"][:]
        res = {"outcome": f"{ev[0]}:{oe}|{of}", "violations": []}
        V = res["violations"]
        if (oe == "ok") != (of == "ok"):
            V.append(("C16/outcome", f"EVO: {oe}, Fluent: {of}"))
        elif oe != "ok":
            for cls in ("VolumeOverflowError", "VolumeUnderflowError", "InvalidOperationError"):
                if exc_is(xe, cls) != exc_is(xf, cls):
                    V.append(("C16/exception-class", f"EVO raised {type(xe).__name__}, Fluent raised {type(xf).__name__}"))
        for n in W["E"]["lw"]:
            a, b = W["E"]["lw"][n], W["F"]["lw"][n]
            if a.volumes.astype(float).tobytes() != b.volumes.astype(float).tobytes():
                V.append(("C16/volumes", f"{n}: EVO {a.volumes.tolist()} vs Fluent {b.volumes.tolist()}"))
            if set(a.composition) != set(b.composition) or any(a.composition[k].tobytes() != b.composition[k].tobytes() for k in a.composition):
                V.append(("C16/composition", f"{n}: compositions differ"))
            ha, hb = a.history, b.history
            if [l for l, _ in ha] != [l for l, _ in hb] or any(not np.array_equal(x, y) for (_, x), (_, y) in zip(ha, hb)):
                V.append(("C16/history", f"{n}: EVO {[l for l, _ in ha]} vs Fluent {[l for l, _ in hb]}"))
        for k in ("E", "F"):
            for d in cm.callers_arrays_unchanged(W[k], config):
                V.append(("C16/volumes", d))
        # records: identical except trough position fields, which decode to the same real well
        if len(re_) != len(rf):
            V.append(("C16/records", f"EVO emitted {len(re_)} records, Fluent {len(rf)}"))
        else:
            for a, b in zip(re_, rf):
                d = self.rec_diff(a, b, geos)
                if d:
                    V.append(("C16/records", d))
                    break
        # the generic base type refuses instead of guessing
        if ev[0] in ("aspirate", "dispense", "transfer", "distribute"):
            ob, xb = exec_event(W["B"], ev)
            rb = [r for r in W["B"]["wl"]["w"] if r[0] in "ADR"]
            W["B"] = None  # rebuilt lazily: the base world is only used from pristine labware
            nonzero = True
            if ev[0] in ("aspirate", "dispense"):
                pr = cm.pairs_wells_vols(config, ev[2], ev[3], ev[4])
                nonzero = pr is not None and any(v > 0 for _, v in pr)
            if (ev[0] == "transfer" or nonzero) and (ob == "ok" or rb):
                if oe == "ok":  # only meaningful when the operation is otherwise valid
                    V.append(("C16/base-worklist-guessed", f"BaseWorklist.{ev[0]} -> {ob}, pipetting records {rb[:3]}"))
            W["B"] = self._sub(config, "BaseWorklist")
        if re_ or oe != "ok":
            res["nontrivial"] = pre + repr(ev).encode()
        if oe != "ok" or of != "ok":
            W["failed"] += 1
        return res

    def rec_diff(self, a, b, geos):
        fa, fb = a.split(";"), b.split(";")
        if a == b:
            # equal strings are only fine if the addressed rack is not a trough, or the number means the same
            # well on both devices
            if fa[0] in ("A", "D") and len(fa) == 11 and geos.get(fa[1]) is not None and geos[fa[1]].is_trough:
                try:
                    ca, cb = geos[fa[1]].decode("evo", int(fa[4])), geos[fa[1]].decode("fluent", int(fb[4]))
                except ValueError:
                    return None
                if ca is None or ca != cb:
                    return f"both devices emitted {a!r}; on the EVO it addresses {ca}, on the Fluent {cb}"
            return None
        if fa[0] != fb[0] or fa[0] not in ("A", "D", "R"):
            return f"records differ: {a!r} vs {b!r}"
        if fa[0] in ("A", "D"):
            if len(fa) != len(fb) or fa[:4] != fb[:4] or fa[5:] != fb[5:]:
                return f"records differ outside the position field: {a!r} vs {b!r}"
            g = geos.get(fa[1])
            if g is None or not g.is_trough:
                return f"position differs for a non-trough rack: {a!r} vs {b!r}"
            try:
                ca, cb = g.decode("evo", int(fa[4])), g.decode("fluent", int(fb[4]))
            except ValueError:
                return f"non-numeric position: {a!r} vs {b!r}"
            if ca is None or ca != cb:
                return f"trough positions address different wells: {a!r} -> {ca} vs {b!r} -> {cb}"
            return None
        # R record
        if fa[1:4] != fb[1:4] or fa[6:9] != fb[6:9] or fa[11:16] != fb[11:16]:
            return f"R records differ outside range fields: {a!r} vs {b!r}"
        if fa[4:6] != fb[4:6]:
            return f"R source ranges differ: {a!r} vs {b!r}"
        g = geos.get(fa[6])
        try:
            def cells(f, dev):
                ex = {int(x) for x in f[16:]}
                return sorted(g.decode(dev, p) for p in range(int(f[9]), int(f[10]) + 1) if p not in ex)
            ca, cb = cells(fa, "evo"), cells(fb, "fluent")
        except Exception as e:
            return f"R destination not decodable: {a!r} vs {b!r} ({e})"
        if not g.is_trough:
            return f"R destination ranges differ for a non-trough rack: {a!r} vs {b!r}"
        # virtual rows of one trough column share a Fluent position: compare the addressed wells as a set
        if set(ca) != set(cb) or None in ca:
            return f"R destinations address different wells: {a!r} -> {ca} vs {b!r} -> {cb}"
        return None
