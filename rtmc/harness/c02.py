"""C02 - volume limits are enforced on every tracked operation."""
import math
import re
from fractions import Fraction

import numpy as np

from ..world import exc_is, exec_event, fhex, geo_of, make_world, plate, ref_vols, trough
from . import common as cm

INF = float("inf")
LIMITS = {
    "empty": (0, 100, 0),
    "full": (0, 100, 100),
    "mid": (10, 100, 50),
    "tiny": (0, 0.3, 0.1),
    "huge": (5, 1e6, 5),
    "third": (1 / 3, 7.1, 2.675),
    # decimal limits where float rounding bites: fl(v + fl(max - v)) > max and fl(v - fl(v - min)) < min
    "dec_hi": (0, 1.7, 0.6),
    "dec_hi2": (0, 100.2, 32.02),
    "dec_lo": (0.1, 50, 0.39),
    # the caller hands float32 / int64 arrays to the constructor: tracking must still be double precision
    "f32": (0.1, 200.3, 100.1),
    "i64": (0, 100, 7),
    # A/S and two labware with much wider limits (B/U) are constructed from one and the same float64 array
    # objects, which the caller later re-uses: nothing done to B, U or the arrays may move a well of A or S
    "alias": (10, 100, 50),
    # the plate is an instance of a user subclass of Labware that overrides a public hook (no composition tracking)
    "subclass": (10, 100, 50),
    # every worklist operation runs inside the `with` block of a worklist that is bound to a file
    "ctx": (10, 100, 50),
}
BULK = ("mid", "third", "dec_hi2", "empty")  # configurations with a 4 x 4 plate for calls that name 17 and more wells
assert 0.6 + (1.7 - 0.6) > 1.7 and 32.02 + (100.2 - 32.02) > 100.2 and 0.39 - (0.39 - 0.1) < 0.1
_MSG = re.compile(r'"(.+?)"\.([A-Z]\d+):')


def na(x):
    return math.nextafter(x, INF)


def add_volumes(v, mn, mx):
    room = mx - v
    return [0, room / 2, room, na(room), mx, 1e308, INF]


def rem_volumes(v, mn, mx):
    av = v - mn
    return [0, av / 2, av, na(av), v, 1e308, INF, 5e-324]


def J(v):
    return fhex(v)


def up32(x):
    """the smallest single-precision number >= x, as the hex string of its exact value (None if not finite)"""
    f = np.float32(x)
    if float(f) < x:
        f = np.nextafter(f, np.float32(np.inf))
    return float(f).hex() if np.isfinite(f) else None


class Harness(cm.BaseA):
    id = "C02"
    rule = (
        "every sequence of <= depth core operations (rejected ones included, at most two per execution) followed "
        "by any one operation of the full alphabet; volumes are state-relative: 0, half, exactly to the limit, one "
        "ulp beyond, far beyond, 1e308, inf (and 5e-324 for removals) for the addressed well in the current state; "
        "call sites: Labware.add/remove, aspirate/dispense (1 well, 2 wells, repeated well, trough alias), transfer "
        "(with and without splitting), distribute, evo_aspirate/evo_dispense; 6 limit configurations.  "
        "non-trivial = the call was rejected with a volume exception or drove a well exactly to a limit; distinct "
        "= distinct (call, canonical pre-state)"
    )
    assumptions = [
        "a spurious rejection (raising although the result would fit) is not a violation of the statement and is not flagged",
        "where exact and floating-point arithmetic disagree about exceeding a limit (one-ulp band) either outcome is accepted",
        "infinite limits are not configured; infinite volumes are",
    ]

    def depth(self, tier):
        return 2 if tier == "quick" else 3

    def bounds(self, tier):
        return {"depth": self.depth(tier), "limit_configurations": {k: list(v) for k, v in LIMITS.items()}, "max_rejected_per_execution": 2}

    def configs(self, tier):
        out = []
        for name, (mn, mx, init) in LIMITS.items():
            if name == "alias":
                out.append(
                    {
                        "limits": name,
                        "fresh": True,  # shared memory does not survive pickling: every transition re-executes its history
                        "labware": [
                            dict(plate("A", 2, 1, mn, mx, [[init], [init]]), share="pa"),
                            dict(trough("S", 2, 2, mn, mx, [init, init]), share="ts"),
                            dict(plate("B", 2, 1, 0, 1e6, [[init], [init]]), share="pa"),
                            dict(trough("U", 2, 2, 0, 1e6, [init, init]), share="ts"),
                        ],
                        "worklists": {
                            "w": {"cls": "EvoWorklist", "max_volume": 4e6, "auto_split": True},
                            "ws": {"cls": "FluentWorklist", "max_volume": mx / 2.5, "auto_split": True},
                        },
                    }
                )
                continue
            out.append(
                {
                    "limits": name,
                    "labware": [dict(plate("A", 2, 1, mn, mx, init), **({"subclass": "nocomp"} if name == "subclass" else {})), trough("S", 2, 2, mn, mx, [init, init])] + ([plate("G", 4, 4, mn, mx, init)] if name in BULK else [])
                    if name not in ("f32", "i64")
                    else [
                        dict(plate("A", 2, 1, mn, mx, [[init], [init]]), np="float32" if name == "f32" else "int64"),
                        dict(trough("S", 2, 2, mn, mx, [init, init]), np="float32" if name == "f32" else "int64"),
                    ],
                    "worklists": {
                        "w": dict({"cls": "EvoWorklist", "max_volume": 4e6, "auto_split": True}, **({"file": "w"} if name == "ctx" else {})),
                        "ws": dict({"cls": "FluentWorklist", "max_volume": max(mx, 1e-3) / 2.5, "auto_split": True}, **({"file": "ws"} if name == "ctx" else {})),
                    },
                }
            )
        return out

    def init(self, config):
        W = make_world(config)
        W["rejected"] = 0
        return W

    def canon(self, W, config):
        return b"|".join(lw.volumes.astype(float).tobytes() for _, lw in sorted(W["lw"].items())) + bytes([W["rejected"]])

    # cells: (labware, id used in calls, alias id or None)
    CELLS = [("A", "A01", None), ("A", "B01", None), ("S", "A01", "B01"), ("S", "B02", "A02")]

    def _vol(self, W, lw, wid):
        L = W["lw"][lw]
        return float(L.volumes[L.indices[wid]])

    def events(self, W, config, full):
        mn, mx, _ = LIMITS[config["limits"]]
        ev = []
        if config["limits"] == "alias":
            full = False  # the thin alphabet on A/S, plus legal operations on the labware that share their arrays
            ev += [
                ["add", "B", "A01", 500, {}],
                ["remove", "B", "B01", 45, {}],
                ["dispense", "w", "U", ["B01"], [500], {}],
                ["aspirate", "w", "U", ["A02"], [45], {}],
                ["transfer", "w", "B", ["A01"], "U", ["A02"], [45], {}],
                ["caller_write", "pa", -1.0],
                ["caller_write", "ts", 1e7],
            ]
        for lw, wid, alias in self.CELLS:
            v = self._vol(W, lw, wid)
            adds, rems = add_volumes(v, mn, mx), rem_volumes(v, mn, mx)
            sel_a = adds if full else adds[1:4]
            sel_r = rems if full else rems[1:4]
            for x in sel_a:
                ev.append(["add", lw, wid, J(x), {}])
                if full or lw == "S":
                    ev.append(["dispense", "w", lw, [wid], [J(x)], {}])
            for x in sel_r:
                ev.append(["remove", lw, wid, J(x), {}])
                if full or lw == "A":
                    ev.append(["aspirate", "w", lw, [wid], [J(x)], {}])
            if full:
                room, av = mx - v, v - mn
                # repeated well: each half fits, the pair exactly fills / the third overflows
                ev.append(["dispense", "w", lw, [wid, wid], J(room / 2), {}])
                ev.append(["dispense", "w", lw, [wid, wid, wid], J(room / 2), {}])
                ev.append(["aspirate", "w", lw, [wid, wid], J(av / 2), {}])
                ev.append(["aspirate", "w", lw, [wid, wid, wid], J(av / 2), {}])
                ev.append(["add", lw, [wid, wid], [J(room), J(5e-324)], {}])
                ev.append(["remove", lw, [wid, wid], [J(av), J(5e-324)], {}])
                # small unsigned integer dtypes: the negation / product of such a volume must not wrap around
                k_bad, k_ok = int(av) + 1, int(av / 2)
                if 0 < k_bad <= 255:
                    ev.append(["remove", lw, wid, {"$npa": ["uint8", [k_bad]]}, {}])
                    ev.append(["aspirate", "w", lw, [wid], {"$nps": ["uint16", k_bad]}, {}])
                if 1 <= k_ok <= 255:
                    ev.append(["remove", lw, wid, {"$nps": ["uint8", k_ok]}, {}])
                    ev.append(["aspirate", "w", lw, [wid, wid], {"$npa": ["uint8", [k_ok, 1 if av - k_ok >= 1 else 0]]}, {}])
                # single-precision volume arguments: every float32 is a float64, the sum must be taken in double precision
                x32, y32 = up32(na(room)), up32(na(av))
                if x32 is not None and room > 0:
                    ev.append(["add", lw, wid, {"$np32": x32}, {}])
                    ev.append(["dispense", "w", lw, [wid], {"$a32": [x32]}, {}])
                if y32 is not None and av > 0:
                    ev.append(["remove", lw, wid, {"$a32": [y32]}, {}])
                    ev.append(["aspirate", "w", lw, [wid], {"$np32": y32}, {}])
                if alias:
                    ev.append(["dispense", "w", lw, [wid, alias], [J(room / 2), J(na(room / 2))], {}])
                    ev.append(["aspirate", "w", lw, [alias, wid], [J(av / 2), J(na(av / 2))], {}])
                    ev.append(["remove", lw, {"$a": [[wid], [alias]]}, J(av / 2), {}])
        if full:
            for lw, wid, _ in self.CELLS[:3]:
                v = self._vol(W, lw, wid)
                for lab in ("fill {buffer}", "step {0}", "50 % {"):
                    ev.append(["add", lw, wid, J(na(mx - v)), {"label": lab}])
                    ev.append(["remove", lw, wid, J(na(v - mn)), {"label": lab}])
                    ev.append(["dispense", "w", lw, [wid], [J(na(mx - v))], {"label": lab}])
                    ev.append(["aspirate", "w", lw, [wid], [J(na(v - mn))], {"label": lab}])
        # bulk calls: 17 entries on a 16-well plate, the well named twice fits each portion but not both
        if full and config["limits"] in BULK and "G" in W["lw"]:
            from ..ref.numbering import well_id

            ids = [well_id(r, c) for c in range(4) for r in range(4)]
            g0 = self._vol(W, "G", "A01")
            room, av = mx - g0, g0 - mn
            if room > 0:
                ev.append(["add", "G", ids + ["A01"], J(room * 0.6), {}])
                ev.append(["dispense", "w", "G", ids + ids[5:6] + ["A01"], J(room * 0.6), {}])
                ev.append(["add", "G", ids[:8] + ["D04", "D04"] + ids[8:], [J(room * 0.6)] * 9 + [J(na(room * 0.4))] + [J(room / 4)] * 8, {}])
                ev.append(["add", "G", ids + ["B02"], J(room / 2), {}])
            if av > 0:
                ev.append(["remove", "G", ids + ["A01"], J(av * 0.6), {}])
                ev.append(["aspirate", "w", "G", ids + ["C03", "C03"], J(av / 3), {}])
        # two different wells in one call: the second is refused after the first was applied
        for lw, w1, w2 in (("A", "A01", "B01"), ("S", "A01", "A02")):
            v1, v2 = self._vol(W, lw, w1), self._vol(W, lw, w2)
            if full:
                ev.append(["dispense", "w", lw, [w1, w2], [J((mx - v1) / 2), J(na(mx - v2))], {}])
                ev.append(["aspirate", "w", lw, [w1, w2], [J((v1 - mn) / 2), J(na(v2 - mn))], {}])
                ev.append(["add", lw, [w1, w2], [J(mx - v1), J(mx - v2)], {}])
                ev.append(["remove", lw, [w1, w2], [J(v1 - mn), J(INF)], {}])
        # transfers (one pair): volume relative to what the source can give and the destination can take
        for (sl, sw, _), (dl, dw, _) in [(self.CELLS[0], self.CELLS[2]), (self.CELLS[3], self.CELLS[1]), (self.CELLS[2], self.CELLS[3]), (self.CELLS[0], self.CELLS[1])]:
            av, room = self._vol(W, sl, sw) - mn, mx - self._vol(W, dl, dw)
            vols = [min(av, room) / 2, av, room] if not full else [0, min(av, room) / 2, min(av, room), av, na(av), room, na(room), max(av, room) * 2]
            for x in vols:
                if x < 0 or x != x:
                    continue
                ev.append(["transfer", "w", sl, [sw], dl, [dw], [J(x)], {}])
                if full and x <= 8 * config["worklists"]["ws"]["max_volume"]:
                    ev.append(["transfer", "ws", sl, [sw], dl, [dw], [J(x)], {"wash_scheme": "reuse"}])
        if full:
            a1, a2 = self._vol(W, "A", "A01") - mn, self._vol(W, "A", "B01") - mn
            r1, r2 = mx - self._vol(W, "S", "A01"), mx - self._vol(W, "S", "A02")
            ev.append(["transfer", "w", "A", ["A01", "B01"], "S", ["A01", "B02"], [J(a1), J(na(a2))], {}])
            ev.append(["transfer", "w", "A", ["A01", "B01"], "S", ["B01", "A01"], [J(min(a1, r1) / 2), J(max(min(a2, r1), 0))], {}])
            ev.append(["transfer", "w", "S", ["A01", "B01"], "A", ["A01", "B01"], J((self._vol(W, "S", "A01") - mn) / 2), {}])
            ev.append(["transfer", "w", "S", ["A01", "B01", "A01"], "A", ["A01", "B01", "A01"], J((self._vol(W, "S", "A01") - mn) / 2), {}])
        # distribute from a trough column into 1..2 plate wells / the other column
        for col, sid in ((0, "A01"), (1, "A02")):
            av = self._vol(W, "S", sid) - mn
            r1, r2 = mx - self._vol(W, "A", "A01"), mx - self._vol(W, "A", "B01")
            cands = [av / 2, r1] if not full else [0, av / 2, av, na(av), r1, na(r1), r2 / 2, av / 4]
            for x in cands:
                if x < 0 or x != x:
                    continue
                ev.append(["distribute", "w", "S", col, "A", ["A01", "B01"], {"volume": J(x)}])
                if full:
                    ev.append(["distribute", "w", "S", col, "A", ["B01"], {"volume": J(x)}])
            if full:
                # the same destination listed twice / two virtual rows of one trough column (one Fluent position):
                # the source is charged once per listed well
                for x in (av / 2, na(av / 2), av / 4):
                    if x >= 0 and x == x:
                        ev.append(["distribute", "w", "S", col, "A", ["A01", "A01"], {"volume": J(x)}])
                        other = ["A02", "B02"] if col == 0 else ["A01", "B01"]
                        ev.append(["distribute", "ws", "S", col, "S", other, {"volume": J(x)}])
                        ev.append(["distribute", "w", "S", col, "S", other, {"volume": J(x)}])
                ev.append(["distribute", "w", "S", col, "S", ["A02" if col == 0 else "A01"], {"volume": J(av)}])
                ev.append(["distribute", "w", "S", col, "A", ["A01"], {"volume": J(INF)}])
        # EVO script commands
        if full:
            a1, a2 = self._vol(W, "A", "A01") - mn, self._vol(W, "A", "B01") - mn
            r1, r2 = mx - self._vol(W, "A", "A01"), mx - self._vol(W, "A", "B01")
            for vols in ([a1 / 2, a2], [a1, na(a2)], [na(a1), a2 / 2]):
                ev.append(["evo_aspirate", "w", "A", ["A01", "B01"], [10, 1], [1, 2], [J(x) for x in vols], "LC", {}])
            for vols in ([r1 / 2, r2], [r1, na(r2)], [na(r1), r2 / 2]):
                ev.append(["evo_dispense", "w", "A", ["A01", "B01"], [10, 1], [1, 2], [J(x) for x in vols], "LC", {}])
            sv = self._vol(W, "S", "A01")
            ev.append(["evo_aspirate", "w", "S", ["A01", "B01"], [11, 1], [1, 2], J((sv - mn) / 2), "LC", {}])
            ev.append(["evo_aspirate", "w", "S", ["A01", "B01"], [11, 1], [3, 4], J(na((sv - mn) / 2)), "LC", {}])
            ev.append(["evo_dispense", "w", "S", ["A01", "B01"], [11, 1], [1, 2], J(na((mx - sv) / 2)), "LC", {}])
        # drop malformed candidates (negative relative volumes can arise from partially applied states)
        out = []
        for e in ev:
            if e[0] == "caller_write":
                out.append(e)
                continue
            vs = ref_vols(e[3] if e[0] in ("add", "remove") else e[4] if e[0] in ("aspirate", "dispense") else e[6] if e[0] in ("transfer", "evo_aspirate", "evo_dispense") else e[6]["volume"])
            vs = vs if isinstance(vs, list) else [vs]
            if all(isinstance(x, (int, float)) and x == x and x >= 0 for x in vs):
                out.append(e)
        return out

    def core_events(self, W, config):
        if W["rejected"] >= 2:
            return []
        if config["limits"] in ("subclass", "i64", "tiny", "ctx") and W.get("n", 0) >= 1 and getattr(self, "tier", "quick") == "quick":
            return []  # quick tier: these configurations are explored one level less deep
        return self.events(W, config, False)

    def full_events(self, W, config):
        return self.events(W, config, True)

    # ------------------------------------------------------------------ reference decision
    def sim_pairs(self, cur, pairs, kind, mn, mx):
        """float/exact simulation of sequential additions or removals.
        returns (must_raise_index or None, state dict at the point of refusal / end, ambiguous)"""
        cur = dict(cur)
        for i, (cell, vol) in enumerate(pairs):
            c = cur[cell]
            if kind == "add":
                xf = c + vol
                xe_bad = vol == INF or Fraction(c) + Fraction(vol) > Fraction(mx)
                xf_bad = xf > mx
            else:
                xf = c - vol
                xe_bad = vol == INF or Fraction(c) - Fraction(vol) < Fraction(mn)
                xf_bad = xf < mn
            if xe_bad and xf_bad:
                return i, cur, False
            if xe_bad or xf_bad:
                return None, cur, True
            cur[cell] = xf
        return None, cur, False

    def step(self, W, ev, config):
        mn, mx, _ = LIMITS[config["limits"]]
        lims = {sp["name"]: (sp["min"], sp["max"]) for sp in config["labware"]}
        geos = cm.geos(config)
        pre = {n: lw.volumes for n, lw in W["lw"].items()}
        prekey = self.canon(W, config)
        W["n"] = W.get("n", 0) + 1
        if config["limits"] == "ctx" and ev[0] not in ("add", "remove", "caller_write"):
            import os

            wl = W["wl"][ev[1]]
            try:
                with wl:
                    exec_event(W, ev, reraise=True)
                out, exc = "ok", None
            except Exception as e:
                out, exc = f"raised:{type(e).__name__}", e
            try:
                os.unlink(wl.filepath)
            except (OSError, TypeError):
                pass
        else:
            out, exc = exec_event(W, ev)
        for wl in W["wl"].values():
            del wl[:]
        post = {n: lw.volumes for n, lw in W["lw"].items()}
        op = ev[0]
        volexc = exc_is(exc, "VolumeViolationException")
        res = {"outcome": f"{op}:{out}", "violations": []}
        V = res["violations"]
        # (a) state invariant
        for n, a in post.items():
            if np.any(np.isnan(a)) or np.any(a < 0) or np.any(a > lims[n][1]):
                V.append(("C02/invariant", f"{n} volumes {a.tolist()} outside [0, {lims[n][1]}]"))
        # (b) limits after a normal return
        if out == "ok":
            for n in post:
                inc = post[n] > pre[n]
                decr = post[n] < pre[n]
                if np.any(post[n][inc] > lims[n][1]):
                    V.append(("C02/above-max-after-addition", f"{n}: {pre[n].tolist()} -> {post[n].tolist()} (max {lims[n][1]})"))
                if np.any(post[n][decr] < lims[n][0]):
                    V.append(("C02/below-min-after-removal", f"{n}: {pre[n].tolist()} -> {post[n].tolist()} (min {lims[n][0]})"))
        if op == "caller_write":
            return res
        # (c) decision + (d) offending well unchanged
        must = None  # (class name, labware, cell, expected float value of that cell)
        if op in ("add", "remove", "aspirate", "dispense", "evo_aspirate", "evo_dispense"):
            if op in ("add", "remove"):
                lw, wells, vols = ev[1], ev[2], ev[3]
            elif op in ("aspirate", "dispense"):
                lw, wells, vols = ev[2], ev[3], ev[4]
            else:
                lw, wells, vols = ev[2], ev[3], ev[6]
            kind = "add" if op in ("add", "dispense", "evo_dispense") else "rem"
            mn, mx = lims[lw]
            pairs = [(c, float(v)) for c, v in ((c, ref_float(v)) for c, v in raw_pairs(config, lw, wells, vols))]
            cur = {c: float(pre[lw][c]) for c in geos[lw].real_wells()}
            i, state, amb = self.sim_pairs(cur, pairs, kind, mn, mx)
            if i is not None:
                must = ("VolumeOverflowError" if kind == "add" else "VolumeUnderflowError", lw, pairs[i][0], state[pairs[i][0]])
        elif op == "transfer" and ev[1] == "w" and len(ev[3]) == 1 and len(ref_list(ev[6])) == 1:
            sl, sw, dl, dw = ev[2], ev[3][0], ev[4], ev[5][0]
            vol = ref_float(ref_list(ev[6])[0])
            if vol > 0:
                sc, dc = geos[sl].real(sw), geos[dl].real(dw)
                cur = {(sl, c): float(pre[sl][c]) for c in geos[sl].real_wells()}
                i, st, amb = self.sim_pairs({sc: cur[(sl, sc)]}, [(sc, vol)], "rem", *lims[sl])
                if i is not None:
                    must = ("VolumeUnderflowError", sl, sc, float(pre[sl][sc]))
                elif not amb:
                    dcur = st[sc] if (dl, dc) == (sl, sc) else float(pre[dl][dc])
                    j, st2, amb2 = self.sim_pairs({dc: dcur}, [(dc, vol)], "add", *lims[dl])
                    if j is not None:
                        must = ("VolumeOverflowError", dl, dc, dcur)
        elif op == "distribute":
            _, _, sl, col, dl, dws, kw = ev
            vol = ref_float(kw["volume"])
            dcells = [geos[dl].real(w) for w in dws]
            n = len(dcells)
            sc = (0, col)
            if vol <= config["worklists"][ev[1]]["max_volume"]:
                tot = vol * n
                c = float(pre[sl][sc])
                xe_bad = vol == INF or Fraction(c) - Fraction(vol) * n < Fraction(mn)
                xf_bad = c - tot < mn
                if xe_bad and xf_bad:
                    must = ("VolumeUnderflowError", sl, sc, c)
                elif not (xe_bad or xf_bad):
                    cur = {c2: float(pre[dl][c2]) for c2 in geos[dl].real_wells()}
                    if sl == dl:
                        cur[sc] = c - tot
                    j, st, amb = self.sim_pairs(cur, [(dc, vol) for dc in dcells], "add", mn, mx)
                    if j is not None:
                        must = ("VolumeOverflowError", dl, dcells[j], st[dcells[j]])
        if must is not None:
            cls, lw, cell, expect = must
            if out == "ok":
                V.append(("C02/violation-not-rejected", f"{op} had to raise {cls} for {lw}{cell} but returned normally: {pre[lw].tolist()} -> {post[lw].tolist()}"))
            elif volexc and type(exc).__name__ != cls:
                V.append(("C02/wrong-exception-class", f"{op} raised {type(exc).__name__}, expected {cls}"))
            elif volexc and float(post[lw][cell]).hex() != float(expect).hex():
                V.append(("C02/offending-well-changed", f"{op}: {lw}{cell} is {post[lw][cell]!r} after {cls}, expected {expect!r}"))
            elif not exc_is(exc, "VolumeViolationException") and op in ("add", "remove", "aspirate", "dispense", "evo_aspirate", "evo_dispense", "transfer"):
                V.append(("C02/wrong-exception-class", f"{op} raised {type(exc).__name__}, expected {cls}"))
        if volexc:
            # (d) the well named in the message was not modified by the refused step
            if not issubclass(type(exc), Exception) or type(exc).__name__ not in ("VolumeOverflowError", "VolumeUnderflowError"):
                V.append(("C02/wrong-exception-class", f"{type(exc).__name__} is not VolumeOverflowError/VolumeUnderflowError"))
            m = _MSG.search(str(exc))
            if m and must is None and op in ("add", "remove") and len(ref_list(ev[2])) == 1:
                cell = geos[m.group(1)].real(m.group(2))
                if float(pre[m.group(1)][cell]).hex() != float(post[m.group(1)][cell]).hex():
                    V.append(("C02/offending-well-changed", f"{m.group(1)}.{m.group(2)}: {pre[m.group(1)][cell]!r} -> {post[m.group(1)][cell]!r}"))
        at_limit = out == "ok" and any(np.any((post[n] != pre[n]) & ((post[n] == mx) | (post[n] == mn))) for n in post)
        if volexc or at_limit:
            res["nontrivial"] = prekey + cm_j(ev)
        if out != "ok":
            W["rejected"] += 1
            res["outcome"] += ":" + ("must" if must else "free")
        return res


def cm_j(ev):
    import json

    return json.dumps(ev, sort_keys=True).encode()


def ref_float(v):
    v = ref_vols(v)
    return float(v)


def ref_list(x):
    x = ref_vols(x) if not (isinstance(x, dict) and "$a" in x) else x["$a"]
    from ..ref.numbering import flat_f

    return flat_f(x)


def raw_pairs(config, lw, wells, vols):
    """[(real cell, volume as given)] column-major, scalar broadcast"""
    from ..ref.numbering import flat_f
    from ..world import ref_wells

    g = geo_of(cm.spec_of(config, lw))
    ws = flat_f(ref_wells(wells, config))
    vs = flat_f(ref_vols(vols))
    if len(vs) == 1:
        vs = vs * len(ws)
    return [(g.real(w), v) for w, v in zip(ws, vs)]
