"""C10 - tip selections encode to the Tecan tip bit mask."""
import itertools

from ..ref import gwl
from ..world import dec, rt
from . import common as cm

from robotools.evotools import commands  # noqa: E402
from robotools.worklists.utils import prepare_aspirate_dispense_parameters  # noqa: E402

SYMS = [i for i in range(1, 9)] + [{"$tip": f"T{i}"} for i in range(1, 9)]
INVALID = [0, 9, -1, 1.0, "1", {"$none": 1}, 2.5, 256, [], ]  # as a tip on its own; [] handled separately


import enum  # noqa: E402


class Channel(enum.IntEnum):
    """a user's own names for the pipetting channels: an int subclass that is not robotools' Tip"""

    c0 = 0
    c1 = 1
    c2 = 2
    c3 = 3
    c4 = 4
    c5 = 5
    c6 = 6
    c7 = 7
    c8 = 8
    c9 = 9


def num(sym):
    return sym if isinstance(sym, int) else int(sym["$tip"][1:])


def mask_of(syms):
    m = 0
    for s in syms:
        m |= 1 << (num(s) - 1)
    return m


class Harness(cm.BaseB):
    id = "C10"
    rule = (
        "every single tip symbol (ints 1..8, Tip.T1..T8), every sequence of length 2 and 3 over the 16 symbols (4352), "
        "all 255 subsets as ascending ints / descending Tip members / with one member duplicated, as list / tuple / "
        "set; invalid members (0, 9, -1, 1.0, '1', None, 2.5, 256, Tip.Any inside a collection) alone and at every index "
        "of a collection; Tip.Any alone; through prepare_aspirate_dispense_parameters, aspirate_well, dispense_well, "
        "aspirate, dispense, EvoWorklist/FluentWorklist.transfer (pair equality), evo_aspirate, evo_dispense, evo_wash.  "
        "non-trivial = a mask with more than one bit or a rejected input; distinct = distinct (entry point, input)"
    )

    def bounds(self, tier):
        return {"max_sequence_length": 3 if tier == "quick" else 4, "subsets": 255}

    def chunks(self, tier):
        out = [{"k": "single"}, {"k": "invalid"}]
        out += [{"k": "subsets", "form": f} for f in ("asc", "desc", "dup")]
        out += [{"k": "seq", "first": i, "maxlen": 3 if tier == "quick" else 4} for i in range(16)]
        out += [{"k": "evo", "lo": lo} for lo in range(1, 256, 32)]
        out.append({"k": "mutate"})
        return out

    def cases(self, chunk):
        k = chunk["k"]
        if k == "single":
            for s in SYMS + [{"$tip": "Any"}]:
                for ep in ("prep", "aspirate_well", "dispense_well", "aspirate", "dispense", "transfer_e", "transfer_f"):
                    yield {"ep": ep, "tip": s}
        elif k == "invalid":
            for bad in INVALID[:-1]:
                for ep in ("prep", "aspirate_well", "dispense_well", "aspirate", "transfer_e", "transfer_f"):
                    yield {"ep": ep, "tip": bad, "invalid": True}
                for pos in range(3):
                    coll = [1, {"$tip": "T3"}]
                    coll.insert(pos, bad)
                    for ep in ("prep", "aspirate_well", "dispense_well", "dispense", "transfer_f"):
                        yield {"ep": ep, "tip": coll, "invalid": True}
            for bad in (0, 9, 2.5, "2"):
                for pos in range(3):
                    coll = [1, {"$tip": "T3"}]
                    coll.insert(pos, bad)
                    for ep in ("aspirate_well", "dispense_well"):
                        yield {"ep": ep, "tip": coll, "invalid": True, "cont": "iter"}
            for pos in range(3):
                coll = [2, {"$tip": "T8"}]
                coll.insert(pos, {"$tip": "Any"})
                for ep in ("prep", "aspirate_well", "dispense_well", "aspirate", "transfer_e"):
                    yield {"ep": ep, "tip": coll, "invalid": True}
            yield {"ep": "aspirate_well", "tip": [{"$tip": "Any"}], "invalid": True}
            # long collections: an invalid member at every index, also behind all eight distinct tips
            bases = [list(range(1, 9)), [{"$tip": f"T{t}"} for t in range(8, 0, -1)], list(range(1, 9)) + [1, 2], [4, 4, 4, 4, 4, 4, 4, 4, 4]]
            for base in bases:
                for bad in (0, 9, {"$tip": "Any"}, 2.5):
                    for pos in range(len(base) + 1):
                        coll = list(base)
                        coll.insert(pos, bad)
                        for ep in ("prep", "aspirate_well", "dispense_well", "aspirate", "dispense", "transfer_e", "transfer_f"):
                            yield {"ep": ep, "tip": coll, "invalid": True}
                for ep in ("prep", "aspirate_well", "dispense", "transfer_e", "transfer_f"):
                    yield {"ep": ep, "tip": base + base}
        elif k == "mutate":
            # the caller keeps one list of tips, edits it in place between two calls and passes the same object again
            for ep in ("prep", "aspirate_well", "dispense_well", "aspirate", "dispense", "transfer_e", "transfer_f"):
                for first in ([1, 2], [{"$tip": "T8"}], [3, 3, 1]):
                    for edit in (["append", 3], ["append", {"$tip": "T5"}], ["set", [8]], ["set", [5, 8]], ["set", [2, 1]], ["pop"], ["append", 9], ["append", {"$tip": "Any"}], ["set", [0]]):
                        yield {"k": "mutate", "ep": ep, "tip": first, "edit": edit}
        elif k == "subsets":
            for m in range(1, 256):
                members = [t for t in range(1, 9) if m >> (t - 1) & 1]
                if chunk["form"] == "asc":
                    coll = members
                elif chunk["form"] == "desc":
                    coll = [{"$tip": f"T{t}"} for t in reversed(members)]
                else:
                    coll = members + [{"$tip": f"T{members[len(members) // 2]}"}]
                for cont in ("list", "tuple", "set", "iter"):
                    if cont == "set" and chunk["form"] == "dup":
                        continue
                    if cont == "iter" and m % 5:
                        continue
                    for ep in ("aspirate_well", "dispense_well") + (("aspirate", "dispense", "transfer_e", "transfer_f", "prep") if cont in ("list", "iter") else ()):
                        yield {"ep": ep, "tip": coll, "cont": cont}
                        if cont == "iter" and ep in ("aspirate_well", "dispense_well", "prep", "transfer_e"):
                            # the same while the user has switched the library's loggers to DEBUG
                            yield {"ep": ep, "tip": coll, "cont": cont, "debuglog": True}
        elif k == "seq":
            f = SYMS[chunk["first"]]
            for n in range(2, chunk.get("maxlen", 3) + 1):
                for rest in itertools.product(SYMS, repeat=n - 1):
                    for ep in ("aspirate_well", "dispense_well"):
                        yield {"ep": ep, "tip": [f] + list(rest)}
                    if n == 2:
                        # the same pair as a one-shot iterator through the methods that emit several records
                        for ep in ("aspirate", "transfer_e", "transfer_f"):
                            yield {"ep": ep, "tip": [f] + list(rest), "cont": "iter"}
        else:
            for m in range(chunk["lo"], min(256, chunk["lo"] + 32)):
                members = [t for t in range(1, 9) if m >> (t - 1) & 1]
                forms = [members, [{"$tip": f"T{t}"} for t in members], list(reversed(members)), members + members[:1]]
                if len(members) >= 2:
                    forms.append(members[1:] + [{"$tip": f"T{members[0]}"}])
                for fi, tips in enumerate(forms):
                    for ep in ("evo_aspirate", "evo_dispense", "evo_wash"):
                        yield {"ep": ep, "tip": tips, "form": fi}
                if len(members) >= 2:
                    # tips and wells both listed in descending order (the same permutation of both)
                    for ep in ("evo_aspirate", "evo_dispense"):
                        yield {"ep": ep, "tip": list(reversed(members)), "form": 2, "wells_rev": True}
                        yield {"ep": ep, "tip": members[1:] + members[:1], "form": 0, "wells_rot": True}
                # tip numbers given as members of a user's own IntEnum
                for ep in ("evo_aspirate", "evo_dispense", "evo_wash"):
                    yield {"ep": ep, "tip": members, "form": 0, "ienum": True}
                # one of the selected tips moves nothing: it is still selected
                for ep in ("evo_aspirate", "evo_dispense"):
                    yield {"ep": ep, "tip": members, "form": 0, "zero": len(members) // 2}
                    if len(members) > 1:
                        yield {"ep": ep, "tip": members, "form": 0, "zero": len(members) - 1}
            if chunk["lo"] == 1:
                for bad in ([0], [9], [1, {"$tip": "Any"}], [{"$tip": "Any"}], [1.0], ["1"], [1, 0], [{"$none": 1}]):
                    for ep in ("evo_aspirate", "evo_dispense", "evo_wash"):
                        yield {"ep": ep, "tip": bad, "invalid": True}
                for bad in ([0], [9], [1, 9]):
                    for ep in ("evo_aspirate", "evo_dispense", "evo_wash"):
                        yield {"ep": ep, "tip": bad, "invalid": True, "ienum": True}

    # --------------------------------------------------------------
    def call(self, ep, wl, src, dst, tip):
        if ep == "prep":
            return prepare_aspirate_dispense_parameters("S", 1, 10.0, "", tip, "", "", "", "")
        if ep == "aspirate_well":
            wl.aspirate_well("S", 1, 10.0, tip=tip)
        elif ep == "dispense_well":
            wl.dispense_well("S", 1, 10.0, tip=tip)
        elif ep == "aspirate":
            wl.aspirate(src, ["A01", "B02"], 10.0, tip=tip)
        elif ep == "dispense":
            wl.dispense(dst, ["A01", "B02"], 10.0, tip=tip)
        else:
            # (the first volume exceeds the default max_volume of 950: the large-volume path sees the tips too)
            wl.transfer(src, ["A01", "B01"], dst, ["A02", "B01"], [1000.0, 20.0], tip=tip)
        return None

    def one_mutate(self, case):
        ep = case["ep"]
        tips = dec(case["tip"])  # one list object for both calls
        src = rt.Labware("S", 2, 2, min_volume=0, max_volume=5000, initial_volumes=2500)
        dst = rt.Labware("D", 2, 2, min_volume=0, max_volume=5000)
        wl = rt.FluentWorklist() if ep in ("transfer_f", "dispense") else rt.EvoWorklist()
        try:
            self.call(ep, wl, src, dst, tips)
        except Exception as e:
            return "mutate:first-raised", repr(case), [("C10/valid-tip-rejected", f"{ep}(tip={case['tip']!r}): {type(e).__name__}")]
        del wl[:]
        kind = case["edit"][0]
        if kind == "append":
            tips.append(dec(case["edit"][1]))
        elif kind == "set":
            tips[:] = dec(case["edit"][1])
        else:
            tips.pop()
        now = list(tips)
        valid = all((isinstance(t, int) and not isinstance(t, bool) and (1 <= int(t) <= 8 or (hasattr(t, "name") and t.name != "Any"))) for t in now) and all(not (hasattr(t, "name") and t.name == "Any") for t in now)
        want = 0
        for t in now:
            if hasattr(t, "name") and t.name.startswith("T"):
                want |= 1 << (int(t.name[1:]) - 1)
            elif isinstance(t, int) and 1 <= t <= 8:
                want |= 1 << (t - 1)
        exc, r = None, None
        try:
            r = self.call(ep, wl, src, dst, tips)
        except Exception as e:
            exc = e
        what = f"{ep}: the list {case['tip']!r} was edited in place ({case['edit']}) to {now!r} and passed again"
        if not valid or not now:
            if not now:
                return "mutate:empty", None, []
            if exc is None:
                return "mutate:invalid:accepted", repr(case), [("C10/invalid-tip-accepted", f"{what}; accepted, records {list(wl)[:2]}")]
            return "mutate:invalid:raised", repr(case), []
        if exc is not None:
            return "mutate:raised", repr(case), [("C10/valid-tip-rejected", f"{what}: {type(exc).__name__}: {exc}")]
        masks = [int(r[4])] if ep == "prep" else [gwl.parse(x)["tip_mask"] for x in wl if x[0] in "AD"]
        V = [("C10/mask", f"{what}: masks {masks}, expected {want}")] if any(m != want for m in masks) or not masks else []
        return "mutate:ok", repr(case), V

    def one(self, case):
        if case.get("debuglog"):
            import logging

            lg = logging.getLogger("robotools")
            old, oldp = lg.level, lg.propagate
            disabled = logging.root.manager.disable
            logging.disable(logging.NOTSET)  # (the framework silences the library's log output globally)
            h = logging.NullHandler()
            lg.addHandler(h)
            lg.setLevel(logging.DEBUG)
            lg.propagate = False
            try:
                return self.one(dict((k, v) for k, v in case.items() if k != "debuglog"))
            finally:
                lg.setLevel(old)
                lg.propagate = oldp
                lg.removeHandler(h)
                logging.disable(disabled)
        if case.get("k") == "mutate":
            return self.one_mutate(case)
        ep = case["ep"]
        if ep.startswith("evo_"):
            return self.one_evo(case)
        raw = case["tip"]
        tip = dec(raw)
        if case.get("cont") == "tuple":
            tip = tuple(tip)
        elif case.get("cont") == "set":
            tip = set(tip)
        elif case.get("cont") == "iter":
            tip = iter(list(tip))  # a one-shot iterator (also: generators, map objects)
        is_any = raw == {"$tip": "Any"}
        invalid = case.get("invalid", False)
        if not invalid:
            want = None if is_any else mask_of(raw if isinstance(raw, list) else [raw])
        src = rt.Labware("S", 2, 2, min_volume=0, max_volume=5000, initial_volumes=2500)
        dst = rt.Labware("D", 2, 2, min_volume=0, max_volume=5000)
        wl = rt.FluentWorklist() if ep in ("transfer_f", "dispense") else rt.EvoWorklist()
        exc = None
        try:
            if ep == "prep":
                r = prepare_aspirate_dispense_parameters("S", 1, 10.0, "", tip, "", "", "", "")
            elif ep == "aspirate_well":
                wl.aspirate_well("S", 1, 10.0, tip=tip)
            elif ep == "dispense_well":
                wl.dispense_well("S", 1, 10.0, tip=tip)
            elif ep == "aspirate":
                wl.aspirate(src, ["A01", "B02"], 10.0, tip=tip)
            elif ep == "dispense":
                wl.dispense(dst, ["A01", "B02"], 10.0, tip=tip)
            else:
                # the first volume exceeds the default max_volume of 950 (two pairs), the second does not
                wl.transfer(src, ["A01", "B01"], dst, ["A02", "B01"], [1000.0, 20.0], tip=tip)
        except Exception as e:
            exc = e
        V = []
        if invalid:
            if exc is None:
                V.append(("C10/invalid-tip-accepted", f"{ep}(tip={raw!r}) returned normally; records {list(wl)[:2]}"))
            elif [r for r in wl if r[0] in "AD"]:
                V.append(("C10/record-despite-rejection", f"{ep}(tip={raw!r}) raised {type(exc).__name__} but appended {list(wl)}"))
            return f"{ep}:invalid:{'raised' if exc else 'accepted'}", repr(case), V
        if exc is not None:
            return f"{ep}:raised", repr(case), [("C10/valid-tip-rejected", f"{ep}(tip={raw!r}): {type(exc).__name__}: {exc}")]
        if ep == "prep":
            got = r[4]
            got = None if got == "" else int(got)
            if got != want:
                V.append(("C10/mask", f"prepare(tip={raw!r}) -> {r[4]!r}, expected {want}"))
            return "prep:ok", (repr(case) if want and want & (want - 1) else None), V
        try:
            P = [gwl.parse(x) for x in wl]
        except gwl.ParseError as e:
            return f"{ep}:unparsable", None, [("C10/unparsable", str(e))]
        ad = [p for p in P if p["kind"] in "AD"]
        nexp = {"aspirate_well": 1, "dispense_well": 1, "aspirate": 2, "dispense": 2}.get(ep, 6)
        if len(ad) != nexp:
            V.append(("C10/mask", f"{ep}(tip={raw!r}): {len(ad)} records"))
        for p in ad:
            if p["tip_mask"] != want:
                V.append(("C10/mask", f"{ep}(tip={raw!r}): record {p['raw']!r} carries mask {p['tip_mask']}, expected {want}"))
                break
        if ep.startswith("transfer"):
            for a, d in zip(ad[0::2], ad[1::2]):
                if a["kind"] != "A" or d["kind"] != "D" or a["tip_mask"] != d["tip_mask"]:
                    V.append(("C10/pair-masks-differ", f"{a['raw']!r} / {d['raw']!r}"))
        return f"{ep}:ok", (repr(case) if (want and want & (want - 1)) else None), V

    def one_evo(self, case):
        ep, raw = case["ep"], case["tip"]
        tips = dec(raw)
        if case.get("ienum"):
            tips = [Channel(t) for t in tips]
        invalid = case.get("invalid", False)
        n = len(tips)
        wells = [f"{'ABCDEFGHIJKLMNOP'[i]}01" for i in range(n)]
        if case.get("wells_rev"):
            wells = wells[::-1]
        if case.get("wells_rot"):
            wells = wells[1:] + wells[:1]
        vols = [10.0 + i for i in range(n)]
        maxv = float("nan")
        if case.get("form") in (2, 4):
            # large volumes that differ only in the last emitted digit
            vols = [1000.01 + 0.01 * i for i in range(n)]
            maxv = 5000
        if "zero" in case:
            vols[case["zero"]] = 0.0 if case["zero"] % 2 == 0 else 0.004
        exc = None
        try:
            if ep == "evo_wash":
                cmd = commands.evo_wash(tips=tips, waste_location=(52, 2), cleaner_location=(52, 1))
            else:
                fn = commands.evo_aspirate if ep == "evo_aspirate" else commands.evo_dispense
                cmd = fn(n_rows=16, n_columns=2, wells=wells, labware_position=(30, 2), volume=vols, liquid_class="LC", tips=tips, max_volume=maxv)
        except Exception as e:
            exc = e
        if invalid:
            if exc is None:
                return f"{ep}:invalid:accepted", repr(case), [("C10/invalid-tip-accepted", f"{ep}(tips={raw!r}) -> {cmd!r}")]
            return f"{ep}:invalid:raised", repr(case), []
        nums = [num(t) for t in raw]
        distinct = len(set(nums)) == len(nums)
        if exc is not None:
            # refusing tips that cannot be expressed (duplicates, or per-tip volumes that do not pair up in
            # ascending order) is what C13 demands; distinct ascending tips must be accepted
            if distinct and nums == sorted(nums):
                return f"{ep}:raised", repr(case), [("C10/valid-tips-rejected", f"{ep}(tips={raw!r}): {type(exc).__name__}: {exc}")]
            return f"{ep}:refused", repr(case), []
        V = []
        try:
            p = gwl.parse(cmd)
        except gwl.ParseError as e:
            return f"{ep}:unparsable", None, [("C10/unparsable", f"{cmd!r}: {e}")]
        want = mask_of(raw)
        if p["tip_mask"] != want:
            V.append(("C10/evo-mask", f"{ep}(tips={raw!r}): mask {p['tip_mask']}, expected {want}"))
        if ep != "evo_wash":
            if not distinct:
                V.append(("C10/evo-duplicate-tips-accepted", f"{ep}(tips={raw!r}) with per-tip volumes {vols} -> {cmd!r}"))
            else:
                slots = p["slots"][:8]
                exp = [None] * 8
                for t, v in zip(nums, vols):
                    exp[t - 1] = v
                got = [None if s is None else float(s) for s in slots]
                exp = [None if e is None else round(e, 2) for e in exp]
                if got != exp or any(s is not None for s in p["slots"][8:]):
                    V.append(("C10/evo-volume-slots", f"{ep}(tips={raw!r}, volumes={vols}): slots {got}, expected {exp}"))
        return f"{ep}:ok", repr(case), V
