"""C08 - well numbering is column-major, 1-based, and device-specific for troughs."""
import warnings

from ..ref import gwl
from ..ref.numbering import ROWS, Geo, well_id
from ..world import build_labware, exec_event, make_world, plate, rt, trough
from . import common as cm

from robotools.evotools.utils import get_well_position as evo_pos  # noqa: E402
from robotools.fluenttools.utils import get_well_position as fluent_pos  # noqa: E402

BAD_IDS = ["A5", "A005", "a01", "AA01", "C01", "A07", "A00", "", "1A", "A1 ", "A-1", "Z01", "A100", "A010", "A011", "A01 ", "B0110", "A01x", " A01"]


class Harness(cm.BaseB):
    id = "C08"
    rule = (
        "every well of every plate geometry rows 1..26 x columns (quick: 1..13,24,48,99,100,120; thorough: 1..120) "
        "and every trough geometry virtual rows 1..26 x columns 1..24 through evotools/fluenttools.get_well_position, "
        "Labware.wells/indices/positions, make_well_array, make_well_index_dict; plus 13 malformed or out-of-range "
        "IDs through every operation that names wells on both devices, and the position field of the records emitted "
        "for every valid well of a plate and a trough.  non-trivial = geometry with more than one well; distinct = geometry / case"
    )

    def bounds(self, tier):
        return {"plate_rows": "1..26", "plate_cols": "1..120" if tier != "quick" else "1..13,24,48,99,100,120", "trough_vrows": "1..26", "trough_cols": "1..24"}

    def chunks(self, tier):
        cols = list(range(1, 121)) if tier != "quick" else list(range(1, 14)) + [24, 48, 99, 100, 120]
        out = [{"k": "plate", "R": R, "cols": cols} for R in range(1, 27)]
        out += [{"k": "trough", "V": V} for V in range(1, 27)]
        out += [{"k": "ops", "dev": d} for d in ("EvoWorklist", "FluentWorklist")]
        return out

    def cases(self, chunk):
        if chunk["k"] == "plate":
            for C in chunk["cols"]:
                yield {"k": "plate", "R": chunk["R"], "C": C}
        elif chunk["k"] == "trough":
            for C in range(1, 25):
                yield {"k": "trough", "V": chunk["V"], "C": C}
        else:
            for bad in BAD_IDS:
                for op in ("aspirate", "dispense", "transfer_src", "transfer_dst", "distribute", "evo_aspirate", "evo_dispense", "add", "remove", "dispense0", "add0", "aspirate0", "transfer0", "transfer_within_src", "transfer_within_dst", "transfer_within0"):
                    for lw in ("P", "T"):
                        yield {"k": "bad", "dev": chunk["dev"], "op": op, "id": bad, "lw": lw}
            yield {"k": "emit", "dev": chunk["dev"]}
            for first in ("plate", "trough"):
                yield {"k": "samename", "dev": chunk["dev"], "first": first}
            for R, C in ((1, 120), (2, 101), (8, 100)):
                yield {"k": "longid", "dev": chunk["dev"], "R": R, "C": C}
            yield {"k": "rdest", "dev": chunk["dev"]}

    def one(self, case):
        return getattr(self, "one_" + case["k"])(case)

    def one_plate(self, case):
        R, C = case["R"], case["C"]
        lw = rt.Labware("L", R, C, min_volume=0, max_volume=10)
        return self.geometry(lw, Geo("L", "plate", R, C), f"plate {R}x{C}")

    def one_trough(self, case):
        Vr, C = case["V"], case["C"]
        lw = rt.Trough("L", Vr, C, min_volume=0, max_volume=10)
        o1, k1, v1 = self.geometry(lw, Geo("L", "trough", Vr, C), f"trough {Vr}vx{C}")
        # the same trough declared through the generic constructor
        lw2 = rt.Labware("L", 1, C, min_volume=0, max_volume=10, virtual_rows=Vr)
        o2, k2, v2 = self.geometry(lw2, Geo("L", "trough", Vr, C), f"trough {Vr}vx{C} via Labware(virtual_rows=...)")
        # instances must not share state: a plate with the same dimensions built after the troughs, and the
        # first trough once more after the plate
        lw3 = rt.Labware("L", Vr, C, min_volume=0, max_volume=10)
        o3, k3, v3 = self.geometry(lw3, Geo("L", "plate", Vr, C), f"plate {Vr}x{C} constructed after a trough of the same dimensions")
        o4, k4, v4 = self.geometry(lw, Geo("L", "trough", Vr, C), f"trough {Vr}vx{C} after a plate of the same dimensions was constructed")
        return o1, k1, v1 + v2 + v3 + v4

    def geometry(self, lw, g, what):
        V = []
        R, C = g.idrows, g.cols
        wells, idx = lw.wells, lw.indices
        with warnings.catch_warnings():
            warnings.simplefilter("ignore")
            positions = lw.positions
        if wells.shape != (R, C):
            V.append(("C08/wells-shape", f"{what}: wells.shape {wells.shape}"))
            return what[:6], None, V
        seen_evo, seen_flu = {}, {}
        for r in range(R):
            for c in range(C):
                w = well_id(r, c)
                if wells[r, c] != w:
                    V.append(("C08/wells-array", f"{what}: wells[{r},{c}] = {wells[r, c]!r}, expected {w!r}"))
                    continue
                real = (0, c) if g.is_trough else (r, c)
                if tuple(idx.get(w, ())) != real:
                    V.append(("C08/indices", f"{what}: indices[{w}] = {idx.get(w)}, expected {real}"))
                pe = 1 + c * R + r
                pf = 1 + c if g.is_trough else pe
                try:
                    ge, gf = evo_pos(lw, w), fluent_pos(lw, w)
                except Exception as e:
                    V.append(("C08/position-raised", f"{what} {w}: {type(e).__name__}: {e}"))
                    continue
                if ge != pe:
                    V.append(("C08/evo-position", f"{what} {w}: {ge}, expected {pe}"))
                if gf != pf:
                    V.append(("C08/fluent-position", f"{what} {w}: {gf}, expected {pf}"))
                if positions.get(w) != pe:
                    V.append(("C08/positions-attribute", f"{what} {w}: {positions.get(w)}, expected {pe}"))
                # inverse
                if g.decode("evo", ge) != real or g.decode("fluent", gf) != real:
                    V.append(("C08/not-invertible", f"{what} {w}: evo {ge} -> {g.decode('evo', ge)}, fluent {gf} -> {g.decode('fluent', gf)}, expected {real}"))
                seen_evo.setdefault(ge, w)
                seen_flu.setdefault(gf, real)
                if seen_evo[ge] != w:
                    V.append(("C08/not-injective", f"{what}: EVO position {ge} for {seen_evo[ge]} and {w}"))
                if seen_flu[gf] != real:
                    V.append(("C08/not-injective", f"{what}: Fluent position {gf} for {seen_flu[gf]} and {real}"))
        if len(idx) != R * C or set(idx) != {well_id(r, c) for r in range(R) for c in range(C)}:
            V.append(("C08/indices", f"{what}: {len(idx)} keys"))
        if sorted(seen_evo) != list(range(1, R * C + 1)):
            V.append(("C08/not-surjective", f"{what}: EVO positions are not 1..{R * C}"))
        if not g.is_trough:
            # whatever a caller does to the objects it was handed must not leak into later results
            junk_d, junk_a = rt.make_well_index_dict(R, C), rt.make_well_array(R, C)
            junk_d.clear()
            junk_d["A01"] = (7, 7)
            junk_a[...] = "X00"
            arr = rt.make_well_array(R, C)
            d = rt.make_well_index_dict(R, C)
            if arr.shape != (R, C) or (arr != wells).any():
                V.append(("C08/make_well_array", f"{what}: differs from Labware.wells"))
            if d != {k: tuple(v) for k, v in idx.items()}:
                V.append(("C08/make_well_index_dict", f"{what}: differs from Labware.indices"))
        return what.split()[0], (what if R * C > 1 else None), V

    def _world(self, dev):
        return make_world(
            {
                "labware": [plate("P", 2, 6, 0, 1000, 500), trough("T", 2, 3, 0, 10000, [5000, 5000, 5000]), plate("Q", 2, 6, 0, 1000, 100)],
                "worklists": {"w": {"cls": dev, "max_volume": 950}},
            }
        )

    def one_bad(self, case):
        W = self._world(case["dev"])
        lw, bad, op = case["lw"], case["id"], case["op"]
        if op.startswith("evo_") and case["dev"] != "EvoWorklist":
            return "skip", None, []
        ev = {
            "aspirate": ["aspirate", "w", lw, [bad], 10, {}],
            "dispense": ["dispense", "w", lw, ["A01", bad], 10, {}],
            "transfer_src": ["transfer", "w", lw, ["A01", bad], "Q", ["A01", "B01"], 10, {}],
            "transfer_dst": ["transfer", "w", "Q", ["A01", "B01"], lw, [bad, "A01"], 10, {}],
            "distribute": ["distribute", "w", "T", 0, lw if lw == "P" else "T", ["A02", bad], {"volume": 10}],
            "evo_aspirate": ["evo_aspirate", "w", lw, [bad], [10, 1], [1], 10, "LC", {}],
            "evo_dispense": ["evo_dispense", "w", lw, ["A01", bad], [10, 1], [1, 2], 10, "LC", {}],
            "add": ["add", lw, [bad], 10, {}],
            "remove": ["remove", lw, ["A01", bad], 10, {}],
            # the non-existent well is paired with a volume of exactly zero
            "dispense0": ["dispense", "w", lw, ["A01", bad], [10, 0], {}],
            "add0": ["add", lw, [bad, "A01"], [0, 10], {}],
            "aspirate0": ["aspirate", "w", lw, [bad], 0, {}],
            "transfer0": ["transfer", "w", "Q", ["A01", "B01"], lw, ["A01", bad], [10, 0], {}],
            # source and destination are the same labware object
            "transfer_within_src": ["transfer", "w", lw, ["A01", bad], lw, ["A02", "B02"], 10, {}],
            "transfer_within_dst": ["transfer", "w", lw, ["A01", "A02"], lw, ["B02", bad], 10, {}],
            "transfer_within0": ["transfer", "w", lw, [bad, "A01"], lw, ["A02", "B02"], [0, 10], {}],
        }[op]
        g = Geo(lw, "plate" if lw == "P" else "trough", 2, 6 if lw == "P" else 3)
        if g.exists(bad):
            return "skip", None, []
        labelled = (len(bad) + len(op)) % 2 == 0
        if labelled:
            ev = list(ev)
            if op == "distribute":
                ev[-1] = dict(ev[-1], label="step one")
            elif isinstance(ev[-1], dict):
                ev[-1] = dict(ev[-1], label="step one")
        out, exc = exec_event(W, ev)
        recs = list(W["wl"]["w"])
        if labelled and out != "ok" and op not in ("dispense", "transfer_src", "transfer_dst", "evo_dispense", "remove", "add", "dispense0", "add0", "transfer0", "transfer_within_src", "transfer_within_dst") and recs:
            # nothing was pipetted by this call, so not even its comment may stay behind
            return f"bad:{op}:{out}", repr(case), [("C08/record-for-nonexistent-well", f"{case['dev']}.{op} with label on {lw} well {bad!r} raised but left {recs}")]
        V = []
        if out == "ok":
            V.append(("C08/nonexistent-well-accepted", f"{case['dev']}.{op} on {lw} with well {bad!r} returned normally; records {recs}"))
        # a record must never address the non-existent well; records for the valid wells named before it are fine
        for r in recs:
            try:
                p = gwl.parse(r)
            except gwl.ParseError as e:
                V.append(("C08/record-for-nonexistent-well", f"{op} {bad!r}: unparsable record {r!r}"))
                continue
            if p["kind"] in ("A", "D"):
                gg = {"P": Geo("P", "plate", 2, 6), "Q": Geo("Q", "plate", 2, 6), "T": Geo("T", "trough", 2, 3)}[p["label"]]
                if gg.decode("evo" if case["dev"] == "EvoWorklist" else "fluent", p["position"]) is None:
                    V.append(("C08/record-for-nonexistent-well", f"{op} {bad!r}: {r!r}"))
            elif p["kind"] == "R" and out != "ok":
                V.append(("C08/record-for-nonexistent-well", f"{op} {bad!r}: R record emitted although the call raised: {r!r}"))
            elif p["kind"] in ("Aspirate", "Dispense") and out != "ok":
                V.append(("C08/record-for-nonexistent-well", f"{op} {bad!r}: script command emitted although the call raised"))
        return f"bad:{op}:{out}", repr(case), V

    def one_samename(self, case):
        """one worklist object, a plate and a trough that carry the same name and have the same shape"""
        dev = "evo" if case["dev"] == "EvoWorklist" else "fluent"
        wl = getattr(rt, case["dev"])(max_volume=950)
        V = []
        kinds = ["plate", "trough"] if case["first"] == "plate" else ["trough", "plate"]
        for kind in kinds + kinds[:1]:
            if kind == "plate":
                lw = rt.Labware("reservoir", 4, 3, min_volume=0, max_volume=1e5, initial_volumes=5e4)
            else:
                lw = rt.Trough("reservoir", 4, 3, min_volume=0, max_volume=1e5, initial_volumes=[5e4] * 3)
            g = Geo("reservoir", kind, 4, 3)
            other = rt.Labware("D", 4, 3, min_volume=0, max_volume=1e5)
            for w in g.ids():
                for op in ("aspirate", "transfer"):
                    del wl[:]
                    if op == "aspirate":
                        wl.aspirate(lw, [w], 10)
                    else:
                        wl.transfer(lw, [w], other, [w], 10)
                    p = gwl.parse([r for r in wl if r[0] == "A"][0])
                    if p["position"] != g.position(dev, w):
                        V.append(("C08/emitted-position", f"{case['dev']}.{op} on the {kind} 'reservoir' (4 x 3), used on the same worklist as a {kinds[1] if kind == kinds[0] else kinds[0]} of that name and shape: {w} emitted as {p['position']}, expected {g.position(dev, w)}"))
        return "samename", repr(case), V[:6]

    def one_rdest(self, case):
        """distribute: destination collections of every orientation name the same wells (range + exclusions of the R record)"""
        import numpy as np

        dev = "evo" if case["dev"] == "EvoWorklist" else "fluent"
        V = []
        g = Geo("P", "plate", 4, 6)
        full = np.array([[well_id(r, c) for c in range(6)] for r in range(4)])
        views = {
            "block": full[1:3, 1:4], "rows reversed": full[::-1, 1:3], "columns reversed": full[0:2, ::-1], "both reversed": full[::-1, ::-1][0:3, 0:2],
            "row picks": full[[3, 0, 2], 2:4], "column picks": full[1:3, [4, 1]], "transposed": full[0:2, 0:3].T, "strided": full[::2, ::3],
            "nested list": [["C02", "A02"], ["B05", "D01"]], "flat reversed": list(full[:, 2][::-1]), "fortran": np.asfortranarray(full[::-1, 0:2]),
        }
        for name, dest in views.items():
            tr = rt.Trough("T", 4, 1, min_volume=0, max_volume=1e6, initial_volumes=[1e5])
            pl = rt.Labware("P", 4, 6, min_volume=0, max_volume=1e4)
            wl = getattr(rt, case["dev"])(max_volume=950)
            ids = [str(w) for w in np.asarray(dest).flatten()]
            try:
                wl.distribute(tr, 0, pl, dest, volume=10)
            except Exception as e:
                V.append(("C08/position-raised", f"{case['dev']}.distribute to a {name} selection {ids} raised {type(e).__name__}: {e}"))
                continue
            p = gwl.parse([r for r in wl if r[0] == "R"][-1])
            got = {g.decode(dev, q) for q in range(p["dst_start"], p["dst_end"] + 1) if q not in p["exclude"]}
            want = {g.real(w) for w in ids}
            if got != want or p["dst_start"] > p["dst_end"] or p["exclude"] != sorted(p["exclude"]):
                V.append(("C08/emitted-position", f"{case['dev']}.distribute to a {name} selection {ids}: record {wl[-1]!r} addresses {sorted(got)}, named {sorted(want)}"))
            exp = np.zeros((4, 6))
            for w in ids:
                exp[g.real(w)] += 10
            if (pl.volumes != exp).any():
                V.append(("C08/emitted-position", f"{case['dev']}.distribute to a {name} selection {ids} tracked other wells than those named"))
        return "rdest", repr(case), V

    def one_longid(self, case):
        """well IDs of different length in one call (columns beyond 99): several sources into one destination and back"""
        dev = "evo" if case["dev"] == "EvoWorklist" else "fluent"
        R, C = case["R"], case["C"]
        g = Geo("L", "plate", R, C)
        V = []
        far = well_id(R - 1, C - 1)
        near = [well_id(0, 0), well_id(0, 1), well_id(R - 1, 2)]
        for src, dst in ((near, far), (near, [far]), (far, near), ([far, well_id(0, 99)], well_id(0, 0)), (near[:1], [far, well_id(0, 99)])):
            lw = rt.Labware("L", R, C, min_volume=0, max_volume=1e5, initial_volumes=5e4)
            wl = getattr(rt, case["dev"])(max_volume=950)
            try:
                wl.transfer(lw, src, lw, dst, 10)
            except Exception as e:
                V.append(("C08/position-raised", f"{case['dev']}.transfer on a {R} x {C} plate from {src} to {dst} raised {type(e).__name__}: {e}"))
                continue
            sl, dl = ([src] if isinstance(src, str) else src), ([dst] if isinstance(dst, str) else dst)
            n = max(len(sl), len(dl))
            sl, dl = (sl * n if len(sl) == 1 else sl), (dl * n if len(dl) == 1 else dl)
            P = [gwl.parse(r) for r in wl if r[0] in "AD"]
            got = sorted((P[i]["position"], P[i + 1]["position"]) for i in range(0, len(P) - 1, 2))
            want = sorted((g.position(dev, a), g.position(dev, b)) for a, b in zip(sl, dl))
            if got != want:
                V.append(("C08/emitted-position", f"{case['dev']}.transfer on a {R} x {C} plate from {src} to {dst}: (aspirate, dispense) positions {got}, expected {want}"))
            exp = lw.volumes * 0 + 5e4
            for a, b in zip(sl, dl):
                exp[g.real(a)] -= 10
                exp[g.real(b)] += 10
            if (lw.volumes != exp).any():
                V.append(("C08/emitted-position", f"{case['dev']}.transfer on a {R} x {C} plate from {src} to {dst} tracked other wells than those named"))
        return "longid", repr(case), V

    def one_emit(self, case):
        """the position field of the records emitted for every valid well"""
        dev = "evo" if case["dev"] == "EvoWorklist" else "fluent"
        V = []
        n = 0
        for lw, g in (("P", Geo("P", "plate", 2, 6)), ("T", Geo("T", "trough", 2, 3))):
            for w in g.ids():
                for op in ("aspirate", "dispense"):
                    W = self._world(case["dev"])
                    exec_event(W, [op, "w", lw, [w], 10, {}])
                    recs = list(W["wl"]["w"])
                    n += 1
                    if len(recs) != 1:
                        V.append(("C08/emitted-position", f"{op} {lw}.{w}: records {recs}"))
                        continue
                    p = gwl.parse(recs[0])
                    if p["position"] != g.position(dev, w) or g.decode(dev, p["position"]) != g.real(w) or p["label"] != lw:
                        V.append(("C08/emitted-position", f"{case['dev']}.{op} {lw}.{w}: {recs[0]!r}, expected position {g.position(dev, w)}"))
        # the source range of a reagent distribution names all virtual rows of the requested trough column
        # (virtual rows are counted on both devices for the R record, see DESIGN section 3)
        for vr, cols in ((2, 3), (3, 2), (4, 1), (1, 4), (8, 3)):
            for col in range(cols):
                tr = rt.Trough("T", vr, cols, min_volume=0, max_volume=1e5, initial_volumes=[5e4] * cols)
                pl = rt.Labware("P", 2, 6, min_volume=0, max_volume=1e4)
                wl = getattr(rt, case["dev"])(max_volume=950)
                wl.distribute(tr, col, pl, ["A01", "B02"], volume=10)
                n += 1
                p = gwl.parse(wl[-1])
                if (p["src_start"], p["src_end"]) != (1 + col * vr, (col + 1) * vr) or p["src_label"] != "T":
                    V.append(("C08/emitted-position", f"{case['dev']}.distribute from column {col} of a {vr}-virtual-row x {cols} trough: source range {p['src_start']}..{p['src_end']}, expected {1 + col * vr}..{(col + 1) * vr}"))
                if (p["dst_start"], p["dst_end"], p["exclude"]) != (1, 4, [2, 3]):
                    V.append(("C08/emitted-position", f"{case['dev']}.distribute to A01, B02 of a 2x6 plate: {wl[-1]!r}"))
        return "emit", repr(case), V
