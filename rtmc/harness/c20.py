"""C20 - every labware the constructors accept is internally consistent."""
import itertools
import math

import numpy as np

from ..ref.numbering import ROWS, well_id
from ..world import rt
from . import common as cm

NAN, INF = float("nan"), float("inf")
ROWS_C = [0, 1, 2, 3, 26, 27, 40, -1, 2.0, "2"]
COLS_C = [0, 1, 2, 24, 99, 120, -1, 2.0]
VROWS_C = [None, 0, 1, 2, 26, 27, 2.5, -3]
LIMITS_C = [(0, 10), (5, 10), (10, 10), (10, 5), (-1, 10), (NAN, 10), (0, NAN), (None, 10), (0, None), (0, INF), (0.5, 0.75)]


def is_int(x):
    return isinstance(x, int) and not isinstance(x, bool)


def initial_classes(kind, R, C):
    """(label, value factory, expected 2-D list of real rows x cols or None if not representable)"""
    n = R * C
    real_r = 1 if kind == "trough" else R
    out = [
        ("none", None, [[0.0] * C for _ in range(real_r)]),
        ("zero", 0, [[0.0] * C for _ in range(real_r)]),
        ("five", 5, [[5.0] * C for _ in range(real_r)]),
        ("max", 10, [[10.0] * C for _ in range(real_r)]),
        ("above", 11, [[11.0] * C for _ in range(real_r)]),
        ("tiny", 2.5e-9, [[2.5e-9] * C for _ in range(real_r)]),
        ("denormal", 5e-324, [[5e-324] * C for _ in range(real_r)]),
        ("negative", -1, None),
        ("nan", NAN, None),
        ("inf", INF, None),
    ]
    if kind == "plate":
        flat = [float(i % 10) + 0.5 * (i % 2) for i in range(n)]
        out += [
            ("flat", flat, [flat[r * C : (r + 1) * C] for r in range(R)]),
            ("flat-tuple", ("tuple", flat), [flat[r * C : (r + 1) * C] for r in range(R)]),
            ("flat-short", flat[:-1] if n > 1 else [], None),
            ("flat-long", flat + [1.0], None),
            ("2d", [flat[r * C : (r + 1) * C] for r in range(R)], [flat[r * C : (r + 1) * C] for r in range(R)]),
            ("np2d", ("np", [flat[r * C : (r + 1) * C] for r in range(R)]), [flat[r * C : (r + 1) * C] for r in range(R)]),
            ("flat-tiny", [1e-9] + flat[1:], [([1e-9] + flat[1:])[r * C : (r + 1) * C] for r in range(R)]),
            ("flat-nan", [NAN] + flat[1:], None),
            ("flat-neg", flat[:-1] + [-0.5], None),
            ("flat-above", flat[:-1] + [10.5], [(flat[:-1] + [10.5])[r * C : (r + 1) * C] for r in range(R)]),
            # numpy.ma masked arrays: numpy.array() keeps the data and drops the mask, so what is behind the mask counts
            ("masked", ("ma", [flat[r * C : (r + 1) * C] for r in range(R)], [[(r + c) % 2 == 0 for c in range(C)] for r in range(R)]), [flat[r * C : (r + 1) * C] for r in range(R)]),
            ("masked-nan", ("ma", [[NAN if (r, c) == (0, 0) else flat[r * C + c] for c in range(C)] for r in range(R)], [[(r, c) == (0, 0) for c in range(C)] for r in range(R)]), None),
            ("masked-neg", ("ma", [[-3.0 if (r, c) == (R - 1, C - 1) else flat[r * C + c] for c in range(C)] for r in range(R)], [[(r, c) == (R - 1, C - 1) for c in range(C)] for r in range(R)]), None),
        ]
    else:
        per = [float(c + 1) if c % 2 == 0 else 0.0 for c in range(C)]
        out += [
            ("percol", per, [per]),
            ("percol-tuple", ("tuple", per), [per]),
            ("percol-range", ("range", C), [[float(c) for c in range(C)]]),
            ("percol-short", per[:-1], None),
            ("percol-one", [5.0], None if C > 1 else [[5.0]]),
            ("percol-one-np2d", ("np", [[5.0]]) if C > 1 else [5.0], None if C > 1 else [[5.0]]),
            ("percol-long", per + [1.0], None),
            ("percol-tiny", [3e-9] + per[1:], [[3e-9] + per[1:]]),
            ("percol-nan", [NAN] + per[1:], None),
            ("percol-above", per[:-1] + [12.0], [per[:-1] + [12.0]]),
            ("percol-masked", ("ma", per, [c % 2 == 0 for c in range(C)]), [per]),
            ("percol-masked-nan", ("ma", [NAN] + per[1:], [True] + [False] * (C - 1)), None),
        ]
    return out


class Harness(cm.BaseB):
    id = "C20"
    rule = (
        "full product rows {0,1,2,3,26,27,40,-1,2.0,'2'} x columns {0,1,2,24,99,120,-1,2.0} x virtual_rows "
        "{None,0,1,2,26,27,2.5,-3} for Labware and Trough; on the base geometries 2x3, 1x3, 3x1 (plates) and 2 virtual "
        "rows x 3, 4 x 1 (troughs) the product of 11 limit classes x 13-16 initial-volume classes (scalar, flat list of "
        "right/wrong length, 2-D list, ndarray, per-column list, NaN/inf/negative/too large entries) x 6 naming classes "
        "(none, full, partial, name for an empty well, unknown well, wrong-length column names).  non-trivial = "
        "accepted multi-well labware or a refused specification; distinct = distinct specification"
    )
    assumptions = [
        "booleans and numpy scalars as sizes, arrays of the right size but wrong shape, and Trough(virtual_rows=None) are outside the alphabet",
        "a representable specification that is refused is reported too (the constructors accept all of them on the pinned tree)",
    ]

    def bounds(self, tier):
        return {"rows_max": 40, "cols_max": 120}

    def chunks(self, tier):
        out = [{"k": "sizes", "cls": c} for c in ("Labware", "Trough")]
        for kind, R, C in (("plate", 2, 3), ("plate", 1, 3), ("plate", 3, 1), ("trough", 2, 3), ("trough", 4, 1), ("plate", 1, 1), ("plate", 2, 2), ("plate", 3, 3), ("trough", 2, 2)):
            out.append({"k": "prod", "kind": kind, "R": R, "C": C})
        out.append({"k": "pairs"})
        return out

    def cases(self, chunk):
        if chunk["k"] == "sizes":
            if chunk["cls"] == "Labware":
                for r, c, v in itertools.product(range(len(ROWS_C)), range(len(COLS_C)), range(len(VROWS_C))):
                    yield {"k": "size", "cls": "Labware", "r": r, "c": c, "v": v}
            else:
                for v, c in itertools.product(range(1, len(VROWS_C)), range(len(COLS_C))):
                    yield {"k": "size", "cls": "Trough", "v": v, "c": c}
                for v in range(1, 30):
                    yield {"k": "size", "cls": "Trough", "vraw": v, "c": 2}
            return
        if chunk["k"] == "pairs":
            for R, C in ((2, 3), (1, 1), (8, 12)):
                yield {"k": "pair", "R": R, "C": C, "order": "subclass"}
            for R, C in ((2, 3), (3, 3)):
                yield {"k": "pair", "R": R, "C": C, "order": "names-reused"}
            for R, C in ((2, 3), (8, 12), (16, 24), (4, 1), (1, 3), (8, 1), (26, 2)):
                for order in ("plate,trough", "trough,plate", "plate,plate", "trough,trough", "trough,plate,trough"):
                    yield {"k": "pair", "R": R, "C": C, "order": order}
                    # ... constructed from one and the same float64 array objects, the first one is then used
                    yield {"k": "pair", "R": R, "C": C, "order": order, "share": True}
            return
        kind, R, C = chunk["kind"], chunk["R"], chunk["C"]
        ninit = len(initial_classes(kind, R, C))
        for li in range(len(LIMITS_C)):
            for ii in range(ninit):
                for ni in range(10):
                    yield {"k": "prod", "kind": kind, "R": R, "C": C, "lim": li, "init": ii, "names": ni}

    def one(self, case):
        if case["k"] == "size":
            return self.one_size(case)
        if case["k"] == "pair":
            return self.one_pair(case)
        return self.one_prod(case)

    def one_pair(self, case):
        """several labware with the same dimensions in one process: every one stays consistent"""
        cm.clear_caches()
        R, C = case["R"], case["C"]
        if case["order"] == "names-reused":
            # the caller keeps one component_names dict and uses it for two plates with different fillings
            names = {"A01": "medium"}
            v1 = [[5.0] * C for _ in range(R)]
            v2 = [[5.0] + [0.0] * (C - 1)] + [[0.0] * C for _ in range(R - 1)]
            V = []
            try:
                a = rt.Labware("first", R, C, min_volume=0, max_volume=10, initial_volumes=v1, component_names=names)
                b = rt.Labware("second", R, C, min_volume=0, max_volume=10, initial_volumes=v2, component_names=names)
            except Exception as e:
                return "pair", repr(case), [("C20/representable-spec-rejected", f"two {R}x{C} plates built with one component_names dict {{'A01': 'medium'}} (the second with only A01 filled): {type(e).__name__}: {e}")]
            if names != {"A01": "medium"}:
                V.append(("C20/composition", f"the constructor changed the caller's component_names dict: {names}"))
            V += self.verify(a, "plate", R, C, v1, 0, 10, {(0, 0): "medium"}, f"first of two plates {R}x{C} sharing a names dict")
            V += self.verify(b, "plate", R, C, v2, 0, 10, {(0, 0): "medium"}, f"second of two plates {R}x{C} sharing a names dict")
            return "pair", repr(case), V
        if case["order"] == "subclass":
            # a user subclass that extends a public method and sets its own attributes after the base constructor
            from ..world import CountingLabware

            try:
                lw = CountingLabware("L", R, C, min_volume=0, max_volume=10, initial_volumes=5)
            except Exception as e:
                return "pair", repr(case), [("C20/representable-spec-rejected", f"a Labware subclass whose log() override uses an attribute set after super().__init__(): {R}x{C} raised {type(e).__name__}: {e}")]
            V = self.verify(lw, "plate", R, C, [[5.0] * C for _ in range(R)], 0, 10, {}, f"subclass of Labware {R}x{C}")
            lw.add("A01", 1.0)
            if len(lw.history) != 2 or lw.n_logged != 1:
                V.append(("C20/history", f"subclass of Labware {R}x{C}: after one add() the history has {len(lw.history)} entries and log() ran {lw.n_logged} time(s)"))
            return "pair", repr(case), V
        objs = []
        share = case.get("share")
        ip, it = (np.full((R, C), 5.0), np.full(C, 5.0)) if share else (5, 5)
        for i, kind in enumerate(case["order"].split(",")):
            if kind == "plate":
                objs.append((kind, rt.Labware(f"L{i}", R, C, min_volume=0, max_volume=10, initial_volumes=ip)))
            else:
                objs.append((kind, rt.Trough(f"L{i}", R, C, min_volume=0, max_volume=10, initial_volumes=it)))
        V = []
        if share:
            # the first labware is used and the caller re-uses its arrays: the others are still what was constructed
            first_kind, first = objs[0]
            first.add(well_id(0, C - 1), 2.5)
            first.remove("A01", 1.0)
            ip[...] = -3.0
            it[...] = 1e9
            e0 = [[5.0] * C for _ in range(1 if first_kind == "trough" else R)]
            e0[0][C - 1] += 2.5
            e0[0][0] -= 1.0
            if first.volumes.tolist() != e0:
                V.append(("C20/volumes", f"{first_kind} {R}x{C} built from the caller's array, after add/remove and after the caller overwrote its array: volumes {first.volumes.tolist()[:2]}"))
            objs = objs[1:]
        for i, (kind, lw) in enumerate(objs):
            real_r = 1 if kind == "trough" else R
            V += self.verify(lw, kind, R, C, [[5.0] * C for _ in range(real_r)], 0, 10, {}, f"{kind} {R}x{C} (#{i + 1} of {case['order']})")
        return "pair", repr(case), V

    # ------------------------------------------------------------------
    def verify(self, lw, kind, R, C, expect, mn, mx, names_expect, what):
        """consistency of an accepted object. expect: real rows x cols volumes; names_expect {(r,c): name or None=any}"""
        V = []
        real_r = 1 if kind == "trough" else R
        if lw.wells.shape != (R, C):
            V.append(("C20/wells-shape", f"{what}: wells.shape {lw.wells.shape}, expected {(R, C)}"))
        if lw.volumes.shape != (real_r, C):
            V.append(("C20/volumes-shape", f"{what}: volumes.shape {lw.volumes.shape}, expected {(real_r, C)}"))
        if V:
            return V
        idx = lw.indices
        for r in range(R):
            for c in range(C):
                w = well_id(r, c)
                if lw.wells[r, c] != w or tuple(idx.get(w, ())) != ((0, c) if kind == "trough" else (r, c)):
                    V.append(("C20/id-index-grid", f"{what}: well ({r},{c}): id {lw.wells[r, c]!r}, index {idx.get(w)}"))
                    return V
        if len(idx) != R * C:
            V.append(("C20/id-index-grid", f"{what}: {len(idx)} index entries for {R * C} ids"))
        vol = lw.volumes
        if not np.all(np.isfinite(vol)) or np.any(vol < 0) or np.any(vol > mx):
            V.append(("C20/initial-volumes", f"{what}: volumes {vol.tolist()} not finite within [0, {mx}]"))
        elif expect is not None and vol.tolist() != expect:
            V.append(("C20/initial-volumes-layout", f"{what}: volumes {vol.tolist()}, expected {expect}"))
        if not (0 <= lw.min_volume < lw.max_volume):
            V.append(("C20/limits", f"{what}: min {lw.min_volume}, max {lw.max_volume}"))
        h = lw.history
        if len(h) != 1 or h[0][0] != "initial" or not np.array_equal(h[0][1], vol):
            V.append(("C20/history", f"{what}: history {[(l, a.tolist()) for l, a in h][:3]}"))
        comp = lw.composition
        for r in range(real_r):
            for c in range(C):
                fr = {k: float(a[r, c]) for k, a in comp.items() if a.shape == vol.shape and a[r, c] != 0}
                if any(a.shape != vol.shape for a in comp.values()):
                    V.append(("C20/composition", f"{what}: composition array of wrong shape"))
                    return V
                if vol[r, c] > 0:
                    if len(fr) != 1 or list(fr.values()) != [1.0]:
                        V.append(("C20/composition", f"{what}: non-empty well {well_id(r, c)} has components {fr}"))
                    elif names_expect.get((r, c)) is not None and list(fr) != [names_expect[(r, c)]]:
                        V.append(("C20/composition", f"{what}: well {well_id(r, c)} is {list(fr)}, expected {names_expect[(r, c)]!r}"))
                elif fr:
                    V.append(("C20/composition", f"{what}: empty well {well_id(r, c)} has components {fr}"))
        return V

    def one_size(self, case):
        V = []
        if case["cls"] == "Labware":
            r, c, v = ROWS_C[case["r"]], COLS_C[case["c"]], VROWS_C[case["v"]]
            ok = is_int(r) and r >= 1 and is_int(c) and c >= 1 and (
                (v is None and r <= 26) or (v is not None and is_int(v) and 1 <= v <= 26 and r == 1)
            )
            what = f"Labware(rows={r!r}, columns={c!r}, virtual_rows={v!r})"
            try:
                lw = rt.Labware("L", r, c, min_volume=0, max_volume=10, initial_volumes=5, virtual_rows=v)
            except Exception as e:
                return self.refused(e, ok, what, case)
            kind, R = ("trough", v) if v is not None else ("plate", r)
        else:
            v = case.get("vraw", VROWS_C[case.get("v", 1)])
            c = COLS_C[case["c"]]
            ok = is_int(v) and 1 <= v <= 26 and is_int(c) and c >= 1
            what = f"Trough(virtual_rows={v!r}, columns={c!r})"
            try:
                lw = rt.Trough("L", v, c, min_volume=0, max_volume=10, initial_volumes=5)
            except Exception as e:
                return self.refused(e, ok, what, case)
            kind, R = "trough", v
        if not ok:
            return "size:accepted-unrepresentable", repr(case), [("C20/unrepresentable-accepted", f"{what} was constructed: wells {lw.wells.shape}, volumes {lw.volumes.shape}")]
        real_r = 1 if kind == "trough" else R
        V = self.verify(lw, kind, R, c, [[5.0] * c for _ in range(real_r)], 0, 10, {}, what)
        return "size:ok", (repr(case) if R * c > 1 else None), V

    def refused(self, e, representable, what, case):
        if representable:
            return "refused:representable", repr(case), [("C20/representable-spec-rejected", f"{what}: {type(e).__name__}: {e}")]
        if not isinstance(e, ValueError):
            return f"refused:{type(e).__name__}", repr(case), [("C20/wrong-exception-type", f"{what}: {type(e).__name__}: {e} (ValueError expected)")]
        return "refused:ValueError", repr(case), []

    def one_prod(self, case):
        kind, R, C = case["kind"], case["R"], case["C"]
        mn, mx = LIMITS_C[case["lim"]]
        lab, init, expect = initial_classes(kind, R, C)[case["init"]]
        if isinstance(init, tuple):
            init = np.array(init[1]) if init[0] == "np" else tuple(init[1]) if init[0] == "tuple" else np.ma.MaskedArray(np.array(init[1], dtype=float), mask=init[2]) if init[0] == "ma" else range(init[1])
        lim_ok = mn is not None and mx is not None and mn == mn and mx == mx and 0 <= mn < mx
        # initial volumes must also fit below this max
        if expect is not None and lim_ok and any(x > mx for row in expect for x in row):
            expect = None
        real_r = 1 if kind == "trough" else R
        filled = {(r, c) for r in range(real_r) for c in range(C) if expect is not None and expect[r][c] > 0}
        empty = {(r, c) for r in range(real_r) for c in range(C)} - filled if expect is not None else set()
        ni = case["names"]
        names_ok = True
        names_expect = {}
        kw = {}
        if kind == "plate":
            if ni == 0:
                names = None
            elif ni == 1:
                names = {well_id(r, c): f"n{r}{c}" for r, c in filled}
                names_expect = {(r, c): f"n{r}{c}" for r, c in filled}
            elif ni == 2:
                some = sorted(filled)[:1]
                names = {well_id(r, c): "same" for r, c in some}
                names.update({well_id(r, c): None for r, c in sorted(empty)[:1]})
                names_expect = {(r, c): "same" for r, c in some}
            elif ni == 3:
                names = {well_id(*sorted(empty)[0]): "ghost"} if empty else None
                names_ok = not empty
            elif ni == 4:
                names = {"Z99": "nowhere"}
                names_ok = False
            elif ni == 6:
                # an empty string (a blank spreadsheet cell) is a name too
                names = {well_id(*sorted(empty)[-1]): ""} if empty else None
                names_ok = not empty
            elif ni == 9:
                # well IDs are upper-case: a lower-case key names no well (also next to the real key)
                some = sorted(filled)[:1]
                names = {well_id(r, c).lower(): "lower" for r, c in some} or {"a01": "lower"}
                if some and (some[0][0] + some[0][1]) % 2:
                    names[well_id(*some[0])] = "proper"
                names_ok = False
            elif ni == 8:
                # keys that look like a well of the labware but are not its canonical ID (A1, A001, full-width digit)
                r0, c0 = sorted(filled)[0] if filled else (0, 0)
                names = {f"{chr(65 + r0)}{c0 + 1}": "short"} if (r0 + c0) % 2 == 0 else {f"{chr(65 + r0)}{c0 + 1:03d}": "long"}
                if (r0 + c0) % 3 == 0:
                    names = {f"{chr(65 + r0)}\uff10{c0 + 1}": "full-width zero"}
                names_ok = False
            elif ni == 7:
                # a key that differs from a well ID by white space names no well of the labware
                some = sorted(filled)[:1]
                names = {("\t" + well_id(r, c) if (r + c) % 2 else well_id(r, c) + " "): "padded" for r, c in some} or {"A01 ": "padded"}
                names_ok = False
            else:
                names = {well_id(R, 0): "below"} if R < 26 else None
                names_ok = R >= 26
            kw["component_names"] = names
        else:
            cols_filled = [expect[0][c] > 0 for c in range(C)] if expect is not None else [False] * C
            if ni == 0:
                names = None
            elif ni == 1:
                names = [f"col{c}" if cols_filled[c] else None for c in range(C)]
                names_expect = {(0, c): f"col{c}" for c in range(C) if cols_filled[c]}
            elif ni == 2:
                names = [None] * C
                if any(cols_filled):
                    k = cols_filled.index(True)
                    names[k] = "only"
                    names_expect = {(0, k): "only"}
            elif ni == 3:
                names = ["ghost" if not cols_filled[c] else None for c in range(C)]
                names_ok = all(cols_filled)
            elif ni == 4:
                names = [None] * (C + 1)
                names_ok = False
            elif ni == 6:
                names = ["" if not cols_filled[c] else None for c in range(C)]
                names_ok = all(cols_filled)
            elif ni in (7, 8, 9):
                names = None  # (column names are positional: no keys)
            else:
                names = [None] * (C - 1) if C > 1 else [None, None]
                names_ok = False
            kw["column_names"] = names
        ok = lim_ok and expect is not None and names_ok
        what = f"{'Trough' if kind == 'trough' else 'Labware'}({R}x{C}, min={mn!r}, max={mx!r}, initial={lab}, names={names!r})"
        try:
            if kind == "plate":
                lw = rt.Labware("L", R, C, min_volume=mn, max_volume=mx, initial_volumes=init, **kw)
            elif init is None:
                lw = rt.Trough("L", R, C, min_volume=mn, max_volume=mx, **kw)
            else:
                lw = rt.Trough("L", R, C, min_volume=mn, max_volume=mx, initial_volumes=init, **kw)
        except Exception as e:
            return self.refused(e, ok, what, case)
        if not ok:
            why = "limits" if not lim_ok else "initial volumes" if expect is None else "names"
            return "prod:accepted-unrepresentable", repr(case), [("C20/unrepresentable-accepted", f"{what} was constructed although its {why} cannot be represented; volumes {lw.volumes.tolist()}")]
        V = self.verify(lw, kind, R, C, expect, mn, mx, names_expect, what)
        return "prod:ok", repr(case), V
