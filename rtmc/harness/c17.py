"""C17 - saving writes exactly the records, one per line, replacing earlier content."""
import atexit
import os
import shutil
import tempfile
from pathlib import Path

from ..world import WLCLS, FsPath
from . import common as cm

_DIR = {}


def workdir():
    pid = os.getpid()
    if pid not in _DIR:
        from ..engine import run_tmp

        d = tempfile.mkdtemp(prefix="c17-", dir=run_tmp())
        _DIR.clear()
        _DIR[pid] = d
        atexit.register(shutil.rmtree, d, True)
    return _DIR[pid]


EMIT = [
    ["emit", "comment", ["5 µL of water"], {}],
    ["emit", "aspirate_well", ["Plate", 3, 12.5], {"liquid_class": "Water", "tip": 2}],
    ["emit", "commit", [], {}],
    ["emit", "wash", [], {}],
    ["emit", "dispense_well", ["Plate", 96, 7.25], {"rack_id": "id", "rack_type": "typ"}],
    ["emit", "reagent_distribution", ["T", 1, 8, "P", 1, 12], {"volume": 30, "exclude_wells": [3, 2]}],
    ["emit", "decontaminate", [], {}],
    ["emit", "flush", [], {}],
    ["emit", "set_diti", [1], {}],
    ["emit", "comment", ["line one\nline two\n\n"], {}],
    ["emit", "comment", ["range 10\x9620 g/L \x80\x9f " + "".join(chr(c) for c in range(0xA1, 0x100))], {}],
    ["emit", "evo_wash", [], {"tips": [1, 2], "waste_location": [52, 2], "cleaner_location": [52, 1]}],
    ["emit", "comment", ["\u03b2-galactosidase \u2192 5 \u00b5L"], {}],  # not encodable as Latin-1: saving may refuse, never re-encode
]
NAMES = ["w.gwl", "W.GWL", "other.gwl", "w.txt", "w", "w.gwlx"]
FOREIGN = b"C;written by somebody else\r\n" + b"A;X;;;1;;1.00;;;;\r\nD;X;;;2;;1.00;;;;\r\nW1;\r\n" * 8


class Harness(cm.BaseA):
    id = "C17"

    rule = (
        "every history of <= depth core events followed by any one event of the full alphabet over {emit one record "
        "of each type, save(str/Path) under .gwl and non-.gwl names, __enter__, __exit__ with and without an "
        "exception, another writer overwriting the file}; configurations: worklist with / without configured path x pre-existing file {absent, 3 bytes, "
        "5000 bytes} x {Evo, Fluent}; state = (record list, directory contents).  non-trivial = a file was written; "
        "distinct = distinct (records, directory contents)"
    )
    assumptions = ["file names that merely contain '.gwl' (w.gwl.txt) are ambiguous in the statement and not in the alphabet; 'w.gwlx' (wrong extension) is"]

    def depth(self, tier):
        return 3 if tier == "quick" else 5

    def bounds(self, tier):
        return {"depth": self.depth(tier), "names": NAMES, "initial_file_sizes": [None, 3, 5000]}

    def configs(self, tier):
        out = []
        for cls in ("EvoWorklist", "FluentWorklist", "NotebookWorklist"):
            for path in (None, "w.gwl"):
                for ptype in ("str", "Path", "PurePath", "fspath"):
                    if path is None and ptype != "str":
                        continue
                    if (cls == "NotebookWorklist" and ptype != "str") or (ptype in ("PurePath", "fspath") and cls != "FluentWorklist"):
                        continue
                    for initial in (None, 3, 5000):
                        if initial == 3 and (cls == "NotebookWorklist" or ptype in ("PurePath", "fspath")):
                            continue
                        out.append({"cls": cls, "path": path, "ptype": ptype, "initial": initial})
        return out

    def init(self, config):
        p = config["path"]
        if p is not None and config["ptype"] != "str":
            import pathlib

            p = {"Path": Path, "PurePath": pathlib.PurePosixPath, "fspath": FsPath}[config["ptype"]](p)
        wl = WLCLS[config["cls"]](p) if p is not None else WLCLS[config["cls"]]()
        files = {}
        if config["initial"] is not None:
            files["w.gwl"] = (b"OLD CONTENT;\r\n" * 400)[: config["initial"]]
        return {"wl": wl, "files": files}

    def core_events(self, W, config):
        return EMIT[:4] + EMIT[10:11] + EMIT[12:13] + [["save", "w.gwl", "str"], ["save", "W.GWL", "Path"], ["save", "w.txt", "str"], ["save", "other.gwl", "str"], ["enter"], ["exit", False], ["exit", True], ["foreign", "w.gwl"], ["foreign", "w.gwl", "lf"], ["foreign", "w.txt"]]

    def full_events(self, W, config):
        ev = list(EMIT if config["cls"] != "FluentWorklist" else EMIT[:11] + EMIT[12:])
        for n in NAMES:
            for t in ("str", "Path"):
                ev.append(["save", n, t])
        ev += [["enter"], ["exit", False], ["exit", True], ["with_raise"], ["foreign", "w.gwl"], ["foreign", "other.gwl"], ["foreign", "w.gwl", "lf"], ["foreign", "w.gwl", "cr"], ["foreign", "w.gwl", "mixed"], ["foreign", "W.GWL", "crlf+"], ["foreign", "w.txt"], ["foreign", "w"]]
        if W.get("n", 0) > 1:
            return ev
        # long scripts (block-wise writers, buffer boundaries): only from states reached by <= 1 event
        ns = [1023, 1024, 1025, 4097, 8193]
        if W.get("n", 0) == 0:
            ns = sorted(set(list(range(2, 260)) + list(range(300, 5001, 100)) + [2**k + d for k in range(8, 15) for d in (-1, 0, 1)] + [10000]))
        return ev + [["save", ("w.gwl", "W.GWL", "other.gwl")[n % 3], ("str", "Path")[n % 2], n] for n in ns]

    def canon(self, W, config):
        import hashlib

        # besides what is observable now, which names this worklist object has saved to before and which of those
        # were overwritten by somebody else afterwards (histories that differ in this are not merged)
        return hashlib.blake2b(repr((list(W["wl"]), sorted(W["files"].items()), sorted(W.get("hist", [])))).encode(), digest_size=16).digest()

    def step(self, W, ev, config):
        if ev[0] == "foreign":
            # another program (or another worklist) overwrites / creates the file between two saves
            content = FOREIGN
            if len(ev) > 2:
                # the same records as the worklist holds right now, with other line breaks (an export from elsewhere)
                recs = [r.encode("latin-1", "replace") for r in W["wl"]]
                sep = {"lf": b"\n", "cr": b"\r", "crlf+": b"\r\n"}.get(ev[2])
                if ev[2] == "mixed":
                    content = b"".join(r + (b"\n" if i % 2 else b"\r\n") for i, r in enumerate(recs))
                else:
                    content = sep.join(recs) + (b"\r\n" if ev[2] == "crlf+" else b"")
            W["files"] = dict(W["files"], **{ev[1]: content})
            W["n"] = W.get("n", 0) + 1
            if f"saved:{ev[1]}" in W.get("hist", []):
                W["hist"] = sorted(set(W["hist"]) | {f"foreign-after-save:{ev[1]}"})
            return {"outcome": "foreign", "violations": []}
        d = workdir()
        for f in os.listdir(d):
            os.unlink(os.path.join(d, f))
        for n, b in W["files"].items():
            with open(os.path.join(d, n), "wb") as f:
                f.write(b)
        wl = W["wl"]
        W["n"] = W.get("n", 0) + 1
        before = list(wl)
        cwd = os.getcwd()
        os.chdir(d)
        exc = None
        try:
            try:
                if ev[0] == "emit":
                    getattr(wl, ev[1])(*ev[2], **ev[3])
                elif ev[0] == "save" and len(ev) > 3:
                    # a long script (many records of alternating kinds and lengths), then saved
                    for i in range(ev[3]):
                        if i % 3 == 0:
                            wl.aspirate_well("Plate", 1 + i % 96, 10 + (i % 7) * 0.25)
                        elif i % 3 == 1:
                            wl.dispense_well("Plate", 1 + i % 96, 10 + (i % 7) * 0.25)
                        else:
                            wl.wash()
                    before = list(wl)
                    wl.save(ev[1] if ev[2] == "str" else Path(ev[1]))
                elif ev[0] == "save":
                    wl.save(ev[1] if ev[2] == "str" else Path(ev[1]))
                elif ev[0] == "enter":
                    r = wl.__enter__()
                    if r is not wl:
                        exc = AssertionError("__enter__ did not return the worklist")
                elif ev[0] == "exit":
                    if ev[1]:
                        try:
                            raise RuntimeError("boom")
                        except RuntimeError as e:
                            wl.__exit__(type(e), e, e.__traceback__)
                    else:
                        wl.__exit__(None, None, None)
                elif ev[0] == "with_raise":
                    try:
                        with wl:
                            wl.comment("inside")
                            wl.commit()
                            raise KeyError("abort")
                    except KeyError:
                        pass
                    else:
                        exc = AssertionError("the exception raised inside the with block did not leave it")
            except Exception as e:
                exc = e
        finally:
            os.chdir(cwd)
        files = {}
        for n in os.listdir(d):
            with open(os.path.join(d, n), "rb") as f:
                files[n] = f.read()
        oldfiles = W["files"]
        W["files"] = files
        recs = list(wl)
        out = "ok" if exc is None else f"raised:{type(exc).__name__}"
        res = {"outcome": f"{ev[0]}:{ev[1] if ev[0] in ('emit', 'save') else ''}:{out}", "violations": []}
        V = res["violations"]
        want = "\r\n".join(recs).encode("latin-1", "replace")
        try:
            "\n".join(recs).encode("latin-1")
            encodable = True
        except UnicodeEncodeError:
            encodable = False

        def check_file(name):
            got = files.get(name)
            if got is None:
                V.append(("C17/file-missing", f"{ev}: {name} was not written"))
                return
            if got != want:
                V.append(("C17/file-content", f"{ev}: {name} holds {got[:80]!r}... ({len(got)} bytes), expected {want[:80]!r}... ({len(want)} bytes)"))
            back = got.decode("latin-1").split("\r\n")
            if back != (recs if recs else [""]):
                V.append(("C17/read-back", f"{ev}: reading {name} back gives {back[:4]} for records {recs[:4]}"))
            if got.endswith(b"\n") or got.endswith(b"\r"):
                V.append(("C17/trailing-line-break", f"{ev}: {name} ends with a line break"))

        others_unchanged = lambda keep: all(files.get(n) == b for n, b in oldfiles.items() if n != keep) and all(n in oldfiles or n == keep for n in files)
        if ev[0] == "save" and exc is None:
            W["hist"] = sorted(set(W.get("hist", [])) | {f"saved:{ev[1]}"})
        if ev[0] in ("exit", "with_raise") and config["path"] and exc is None:
            W["hist"] = sorted(set(W.get("hist", [])) | {f"saved:{config['path']}"})
        if ev[0] == "save":
            name = ev[1]
            valid = name.lower().endswith(".gwl")
            if valid:
                if exc is not None and not encodable:
                    pass  # records that Latin-1 cannot express: refusing is fine, the half-written file is not judged
                elif exc is not None:
                    V.append(("C17/save-refused", f"save({name!r}) raised {type(exc).__name__}"))
                elif not encodable:
                    V.append(("C17/file-content", f"save({name!r}) wrote records that Latin-1 cannot express: {files.get(name, b'')[:60]!r}..."))
                else:
                    check_file(name)
                    res["nontrivial"] = self.canon(W, config)
                if not others_unchanged(name):
                    V.append(("C17/other-files-touched", f"save({name!r}): directory went from {sorted(oldfiles)} to {sorted(files)}"))
            else:
                if exc is None:
                    V.append(("C17/non-gwl-name-accepted", f"save({name!r}) returned normally"))
                if files != oldfiles:
                    V.append(("C17/non-gwl-name-created-file", f"save({name!r}): directory went from {sorted(oldfiles)} to {sorted(files)}"))
            if recs != before:
                V.append(("C17/save-changed-records", f"{before[:3]} -> {recs[:3]}"))
        elif ev[0] == "enter":
            if recs:
                V.append(("C17/enter-not-empty", f"after __enter__ the worklist holds {recs[:3]}"))
            if files != oldfiles:
                V.append(("C17/other-files-touched", "__enter__ touched the directory"))
        elif ev[0] in ("exit", "with_raise"):
            if exc is not None and not (not encodable and config["path"]):
                V.append(("C17/exit-raised", f"{ev}: {type(exc).__name__}: {exc}"))
            if ev[0] == "with_raise" and recs != ["C;inside", "B;"]:
                V.append(("C17/enter-not-empty", f"with-block started from a non-empty worklist: {recs[:4]}"))
            if config["path"] and not encodable:
                if exc is None:
                    V.append(("C17/file-content", f"{ev} wrote records that Latin-1 cannot express: {files.get(config['path'], b'')[:60]!r}..."))
            elif config["path"]:
                check_file(config["path"])
                res["nontrivial"] = self.canon(W, config)
                if not others_unchanged(config["path"]):
                    V.append(("C17/other-files-touched", f"{ev}: directory went from {sorted(oldfiles)} to {sorted(files)}"))
            elif files != oldfiles:
                V.append(("C17/other-files-touched", f"{ev} without configured path changed the directory"))
        else:
            if files != oldfiles:
                V.append(("C17/other-files-touched", f"{ev} changed the directory"))
        if len(recs) > 500:
            res["expand"] = False
        if config["cls"] != "NotebookWorklist" and str(wl) != "\n".join(recs):
            V.append(("C17/str", f"str(worklist) = {str(wl)[:80]!r}"))
        fp = wl.filepath
        if (fp is None) != (config["path"] is None) or (fp is not None and os.fspath(fp) != config["path"]):
            V.append(("C17/filepath", f"filepath property {fp!r} vs configured {config['path']!r}"))
        return res
