"""C18 - column partitioning keeps triples intact, groups by column and orders by row."""
import itertools

from ..ref.numbering import parse_id
from ..world import plate, trough, build_labware
from . import common as cm

from robotools.worklists.utils import optimize_partition_by, partition_by_column  # noqa: E402

WELLS = ["A01", "B01", "K02", "A10", "B10", "A99"]  # rows A/B/K, columns 1/2/10/99, with ties on row and column
WELLS4 = ["A01", "B01", "A02", "K10"]


def col_of(w):
    return parse_id(w)[1]


def row_of(w):
    return parse_id(w)[0]


class Harness(cm.BaseB):
    id = "C18"
    rule = (
        "all ordered lists of (source, destination, volume) triples of length 0..3 (thorough: 4 over a reduced well "
        "set) over 6 wells spanning rows A/B/K and columns 1/2/10/99 on each side, volumes = list index (identifiable "
        "triples) and all-equal (ties), both modes, invalid mode names; optimize_partition_by for the 4 trough / "
        "non-trough combinations x valid and invalid mode names.  non-trivial = more than one group or a reordering; "
        "distinct = distinct input"
    )

    def bounds(self, tier):
        return {"max_len": 3 if tier == "quick" else 4, "wells": WELLS}

    def chunks(self, tier):
        out = [{"k": "opt"}]
        for n in range(0, 4):
            if n < 3:
                out.append({"k": "part", "n": n, "first": None, "wells": WELLS})
            else:
                for s in WELLS:
                    out.append({"k": "part", "n": n, "first": s, "wells": WELLS})
        out.append({"k": "long"})
        if tier == "thorough":
            for s in WELLS:
                for d in WELLS:
                    out.append({"k": "part", "n": 4, "first": s, "first_d": d, "wells": WELLS})
        return out

    def cases(self, chunk):
        if chunk["k"] == "opt":
            # the mode name as seen by a complete transfer call (also one that names no wells at all)
            for dev in ("EvoWorklist", "FluentWorklist"):
                for mode in ("auto", "source", "destination", "Source", "", "both", "AUTO", "column"):
                    for nw in (0, 1, 2):
                        for st in (True, False):
                            yield {"k": "tr", "dev": dev, "mode": mode, "nw": nw, "src_trough": st}
            for st in (True, False, "generic"):
                for dt in (True, False, "generic"):
                    for mode in ("auto", "source", "destination", "Source", "", {"$none": 1}, "both", "AUTO"):
                        yield {"k": "opt", "src_trough": st, "dst_trough": dt, "mode": mode}
                        if st == dt:
                            yield {"k": "opt", "src_trough": st, "dst_trough": dt, "mode": mode, "same": True}
                        if mode in ("auto", "source", "destination"):
                            yield {"k": "opt", "src_trough": st, "dst_trough": dt, "mode": mode, "names": True}
            return
        if chunk["k"] == "long":
            # 8-12 triples: one side strictly ascending, the other a permutation family (reversed, rotated, pairs
            # swapped, interleaved columns) - the sizes at which implementations switch algorithms
            rows = "ABCDEFGHIJKL"
            for n in (7, 8, 9, 12):
                asc = [f"{rows[i]}01" for i in range(n)]
                two = [f"{rows[i // 2]}{'01' if i % 2 == 0 else '02'}" for i in range(n)]
                fams = {
                    "reversed": asc[::-1], "rotated": asc[3:] + asc[:3], "swapped": [asc[i ^ 1] if (i ^ 1) < n else asc[i] for i in range(n)],
                    "two-columns": two, "two-columns-reversed": two[::-1], "same": list(asc), "col2-reversed": [w[0] + "02" for w in asc[::-1]],
                }
                for name, other in fams.items():
                    for mode in ("source", "destination"):
                        yield {"k": "part", "s": asc, "d": other, "ties": False, "mode": mode}
                        yield {"k": "part", "s": other, "d": asc, "ties": False, "mode": mode}
                        yield {"k": "part", "s": asc, "d": other, "ties": True, "mode": mode, "cont": "array"}
            return
        n, W = chunk["n"], chunk["wells"]
        pairs = list(itertools.product(W, W))
        firsts = [p for p in pairs if (chunk["first"] is None or p[0] == chunk["first"]) and (chunk.get("first_d") is None or p[1] == chunk["first_d"])]
        if n == 0:
            combos = [()]
        else:
            combos = ((f,) + rest for f in firsts for rest in itertools.product(pairs, repeat=n - 1))
        for combo in combos:
            for mode in ("source", "destination"):
                for ties in (False, True):
                    if ties and n < 2:
                        continue
                    yield {"k": "part", "s": [c[0] for c in combo], "d": [c[1] for c in combo], "ties": ties, "mode": mode}
                    if n <= 2 and not ties:
                        # the same triples handed over as tuples / numpy arrays / one-shot iterators
                        for cont in ("tuple", "array", "iter"):
                            yield {"k": "part", "s": [c[0] for c in combo], "d": [c[1] for c in combo], "ties": ties, "mode": mode, "cont": cont}
        if n == 1:
            for mode in ("auto", "Source", "", "column", {"$none": 1}):
                yield {"k": "part", "s": ["A01"], "d": ["B01"], "ties": False, "mode": mode}

    def one(self, case):
        if case["k"] == "opt":
            return self.one_opt(case)
        if case["k"] == "tr":
            return self.one_tr(case)
        s, d, mode = case["s"], case["d"], case["mode"]
        if isinstance(mode, dict):
            mode = None
        v = [5.0] * len(s) if case["ties"] else [float(i + 1) for i in range(len(s))]
        wrap = {"tuple": tuple, "array": __import__("numpy").array, "iter": iter}.get(case.get("cont"), list)
        try:
            groups = partition_by_column(wrap(s), wrap(d), wrap(v), mode)
        except Exception as e:
            if mode in ("source", "destination"):
                return "raised", None, [("C18/valid-call-raised", f"{type(e).__name__}: {e}")]
            return "invalid-mode:raised", None, []
        if mode not in ("source", "destination"):
            if len(s) == 0:
                return "invalid-mode:empty", None, []
            return "invalid-mode:accepted", None, [("C18/invalid-mode-accepted", f"mode {mode!r} -> {groups!r}")]
        V = []
        got = []
        side = 0 if mode == "source" else 1
        last_col = -1
        for g in groups:
            if len(g) != 3 or not (len(g[0]) == len(g[1]) == len(g[2])) or len(g[0]) == 0:
                V.append(("C18/group-shape", f"group {g!r}"))
                continue
            trip = list(zip([str(x) for x in g[0]], [str(x) for x in g[1]], [float(x) for x in g[2]]))
            got += trip
            cols = {col_of(t[side]) for t in trip}
            if len(cols) != 1:
                V.append(("C18/group-spans-columns", f"{mode}: group {trip}"))
                continue
            c = cols.pop()
            if c <= last_col:
                V.append(("C18/groups-not-ascending-by-column", f"{mode}: column {c + 1} after {last_col + 1}: {groups!r}"))
            last_col = c
            rows = [row_of(t[side]) for t in trip]
            if rows != sorted(rows):
                V.append(("C18/rows-not-ascending", f"{mode}: group {trip}"))
        want = sorted(zip(s, d, v))
        if sorted(got) != want:
            V.append(("C18/triples-not-preserved", f"{mode}: input {want} -> output {sorted(got)}"))
        nontriv = len(groups) > 1 or got != list(zip(s, d, v))
        return f"{mode}:{min(len(groups), 4)}groups", (repr((s, d, case['ties'], mode)) if nontriv else None), V

    def one_tr(self, case):
        from ..world import rt

        wl = getattr(rt, case["dev"])(max_volume=950)
        src = build_labware(trough("S", 4, 2, 0, 1000, [500, 500]) if case["src_trough"] else plate("S", 4, 2, 0, 1000, 500))
        dst = build_labware(plate("D", 4, 2, 0, 1000, 0))
        wells = ["A01", "B02"][: case["nw"]]
        mode = case["mode"]
        valid = mode in ("auto", "source", "destination")
        try:
            wl.transfer(src, wells, dst, wells, [10.0] * case["nw"], partition_by=mode)
        except Exception as e:
            if valid:
                return "tr:raised", None, [("C18/valid-call-raised", f"{case['dev']}.transfer of {case['nw']} wells with partition_by={mode!r}: {type(e).__name__}: {e}")]
            recs = [r for r in wl if r[0] in "AD"]
            return "tr:invalid:raised", repr(case), ([("C18/invalid-mode-accepted", f"records {recs} were emitted before the refusal")] if recs else [])
        if not valid:
            return "tr:invalid:accepted", repr(case), [("C18/invalid-mode-accepted", f"{case['dev']}.transfer of {case['nw']} wells with partition_by={mode!r} returned normally")]
        return "tr:ok", repr(case), []

    def one_opt(self, case):
        mode = None if isinstance(case["mode"], dict) else case["mode"]
        def mk(name, t, init):
            if case.get("names"):
                name = {"S": "Buffer{pos3}", "D": "plate {0} %s"}[name]  # braces / format characters in labware names
            if t == "generic":
                return build_labware(dict(trough(name, 4, 2, 0, 100, [init, init]), generic=True))
            return build_labware(trough(name, 4, 2, 0, 100, init) if t else plate(name, 4, 2, 0, 100, init))

        src, dst = mk("S", case["src_trough"], 50), mk("D", case["dst_trough"], 0)
        if case.get("same"):
            dst = src
        try:
            r = optimize_partition_by(src, dst, mode, "label")
        except Exception as e:
            if mode in ("auto", "source", "destination"):
                return "opt:raised", None, [("C18/valid-call-raised", f"{type(e).__name__}")]
            return "opt:invalid:raised", None, []
        if mode not in ("auto", "source", "destination"):
            return "opt:invalid:accepted", None, [("C18/invalid-mode-accepted", f"optimize_partition_by(mode={mode!r}) -> {r!r}")]
        want = mode if mode != "auto" else ("destination" if case["src_trough"] and not case["dst_trough"] else "source")
        if case.get("same") and mode == "auto":
            want = "source"
        V = [] if r == want else [("C18/automatic-choice", f"source trough={case['src_trough']} destination trough={case['dst_trough']} mode={mode}: {r!r}, expected {want!r}")]
        return f"opt:{r}", repr(case), V
