"""C11 - the labware history is append-only, condensed per operation, and truthful."""
import re

import numpy as np

from ..ref import gwl
from ..world import exec_event, make_world
from . import common as cm


def T(wl, src, sw, dst, dw, v, label, **kw):
    return ["transfer", wl, src, sw, dst, dw, v, dict(kw, label=label)]


def core():
    return [
        ["add", "Q", "A01", 30, {"label": "L"}],
        ["remove", "P", ["A01"], 7.5, {}],
        ["add", "Q", ["B02", "C01"], [1.25, 0.0625], {}],  # more decimals than the report prints
        ["aspirate", "e", "P", ["A01", "B01"], [7.5, 30], {"label": "L"}],
        ["dispense", "f", "Q", ["A01", "A02"], 30, {}],
        T("e", "P", ["A01"], "Q", ["A01"], [30], None),
        T("f", "P", ["A01", "B01"], "Q", ["A01", "B01"], [30, 0], "L"),
        T("e", "P", ["A01", "B01"], "Q", ["A01", "B01"], [0, 0], "L"),
        T("f", "P", ["A02"], "Q", ["C02"], [0], None),
        T("e", "T", ["A01"], "Q", ["B01"], [120], "L"),
        T("f", "T", ["A01", "B01", "C01"], "Q", ["A01", "B01", "C01"], [120, 0, 70], None),
        T("e", "Q", ["A01"], "Q", ["A02"], [7.5], "L"),
        T("f", "Q", ["A01"], "Q", ["A01"], [7.5], None),
        T("e", "P", ["A01"], "P", ["B01"], [70], ""),
        T("f", "T", ["A01", "B01"], "Q", ["C01", "C02"], [50, 100], "L"),  # exactly 1 x and 2 x max_volume
        ["distribute", "e", "T", 0, "Q", ["A01", "B01"], {"volume": 30, "label": "L"}],
        ["distribute", "f", "T", 1, "P", ["A01"], {"volume": 7.5}],
    ] + failing()


def failing():
    """operations that are refused (at once / after a part of them was applied); the labware stays in use"""
    return [
        ["add", "Q", "A01", 1000, {"label": "L"}],
        ["dispense", "e", "Q", ["A01", "B01"], [30, 1000], {}],
        T("f", "T", ["A01"], "Q", ["C02"], [200], "L"),
    ]


def full():
    ev = []
    for lab in (None, "", "L", " step 1\nadd buffer\n", "last", "first"):
        kw = {} if lab is None else {"label": lab}
        ev += [
            ["add", "Q", ["A01", "B02"], [7.5, 0], dict(kw)],
            ["add", "Q", "C01", 0, dict(kw)],
            ["remove", "P", ["A01", "A01"], [7.5, 7.5], dict(kw)],
            ["remove", "T", "B02", 0, dict(kw)],
            ["aspirate", "f", "T", ["A01", "B01", "C01"], 7.5, dict(kw)],
            ["aspirate", "e", "P", "B03", 0, dict(kw)],
            ["dispense", "e", "Q", {"$w2d": ["Q", 0, 3, 0, 2]}, 7.5, dict(kw)],
            ["dispense", "f", "P", ["A01"], 0, dict(kw)],
            T("f", "P", ["A01", "B01", "A02"], "Q", ["A01", "B01", "C01"], [30, 7.5, 70], lab),
            T("e", "P", ["A01", "B01", "A02"], "Q", ["A01", "A01", "A01"], [70, 0, 70], lab, partition_by="destination"),
            T("f", "T", ["A01", "B01"], "P", ["A01", "B01"], [70, 70], lab, wash_scheme="flush"),
            T("e", "T", ["A01", "B02"], "T", ["A02", "B01"], [120, 30], lab),
            T("f", "T", ["A01"], "T", ["B01"], [0], lab),
            T("e", "Q", ["A01", "B01"], "Q", ["B01", "C01"], [7.5, 0], lab, wash_scheme="reuse"),
            T("f", "Q", ["A01", "A02"], "Q", ["A02", "A01"], [0, 0], lab),
            T("e", "T", "A01", "Q", {"$w2d": ["Q", 0, 3, 0, 2]}, 70, lab),
            T("f", "T", ["B02"], "Q", ["B02"], [100], lab),
            T("e", "T", ["A01", "C01"], "P", ["A03", "B03"], [50, 50], lab),
            T("e", "P", ["A02"], "P2", ["A02"], [30], lab),  # another labware object that carries the same name
            T("f", "P2", ["A01", "B01"], "P", ["A01", "B01"], [7.5, 70], lab),
            ["distribute", "f", "T", 0, "Q", ["A01", "C02", "B01"], dict(kw, volume=7.5, multi_disp=3)],
            ["distribute", "e", "T", 0, "T", ["A02"], dict(kw, volume=30)],
        ]
    return ev


class Harness(cm.BaseA):
    id = "C11"
    fresh_quick = True  # every transition is re-executed from a fresh world (hidden state, aliasing)
    rule = (
        "every sequence of <= depth core operations followed by any one operation of the full alphabet; the state "
        "is the complete history (no merging beyond identical histories); operations: add/remove/aspirate/dispense "
        "(1-6 wells, zero volumes), transfer (non-zero, partly zero, all zero, 1-2 split triples next to zero "
        "entries, same labware, same well, three partition/wash variants), distribute; labels None / '' / 'L'; "
        "alternating Evo and Fluent worklists.  non-trivial = the operation succeeded and a history changed; "
        "distinct = distinct complete history"
    )
    assumptions = ["for a transfer that moves nothing the statement only forbids altering or dropping entries; the number of entries it adds is not fixed"]

    def depth(self, tier):
        return 2 if tier == "quick" else 4

    def bounds(self, tier):
        return {"depth": self.depth(tier), "labware": "W1", "worklist_max_volume": 50}

    def configs(self, tier):
        out = []
        for asplit in (True, False, "deepcopy", "copy"):
            clone = asplit if isinstance(asplit, str) else None
            asplit = True if clone else asplit
            out.append(
                {
                    "clone": clone,  # "deepcopy" / "copy": labware and worklists are replaced by copies of themselves before every operation
                    "labware": cm.W1() + [dict(cm.plate("P2", 2, 3, 10, 200, 100), label="P")],
                    "worklists": {
                        "e": {"cls": "EvoWorklist", "max_volume": 50, "auto_split": asplit},
                        "f": {"cls": "FluentWorklist", "max_volume": 50, "auto_split": asplit},
                    },
                }
            )
        return out

    def init(self, config):
        return make_world(config)

    def core_events(self, W, config):
        if config.get("clone") and W.get("n", 0) >= (1 if getattr(self, "tier", "quick") == "quick" else 2):
            return []  # the cloning configurations are explored less deep (quick: 1 + 1, thorough: 2 + 1 operations)
        return core()

    def full_events(self, W, config):
        return core() + full()

    def canon(self, W, config):
        parts = []
        for n, lw in sorted(W["lw"].items()):
            hist = lw.history
            parts.append(repr([l for l, _ in hist]).encode())
            parts += [np.asarray(a, dtype=float).tobytes() for _, a in hist]
            parts.append(lw.volumes.astype(float).tobytes())
        parts.append(repr((W.get("failed", 0), W.get("dirty", []))).encode())
        return b"|".join(parts)

    def step(self, W, ev, config):
        op = ev[0]
        W["n"] = W.get("n", 0) + 1
        lws = W["lw"]
        old = {n: ([l for l, _ in lw.history], [a for _, a in lw.history], [a.copy() for _, a in lw.history]) for n, lw in lws.items()}
        vol_obj = {n: lw.volumes for n, lw in lws.items()}
        vol_copy = {n: a.copy() for n, a in vol_obj.items()}
        hist_prop = {n: lw.history for n, lw in lws.items()}
        out, exc = exec_event(W, ev)
        recs = []
        for wl in W["wl"].values():
            recs += list(wl)
            del wl[:]
        res = {"outcome": f"{op}:{out}", "violations": []}
        V = res["violations"]
        if out != "ok":
            # a refused operation promises nothing about the history; the labware it touched may be left
            # half-applied until their next successful operation logs the current state again
            W["failed"] = W.get("failed", 0) + 1
            touched = {ev[1]} if op in ("add", "remove") else {ev[2]} if op in ("aspirate", "dispense") else {ev[2], ev[4]}
            W["dirty"] = sorted(set(W.get("dirty", [])) | touched)
            res["expand"] = W["failed"] <= 1 and ev in failing()
            return res
        if op in ("add", "remove"):
            label, parts = ev[4].get("label"), {ev[1]}
            moved = True
        elif op in ("aspirate", "dispense"):
            label, parts = ev[5].get("label"), {ev[2]}
            moved = True
        elif op == "transfer":
            label, parts = ev[7].get("label"), {ev[2], ev[4]}
            tr = cm.triples(config, ev[2], ev[3], ev[4], ev[5], ev[6])
            nonzero = sum(1 for _, _, v in tr if v > 0)
            moved = nonzero > 0
        else:
            label, parts = ev[6].get("label", ""), {ev[2], ev[4]}
            moved = True
        changed = False
        for n, lw in lws.items():
            labels, objs, copies = old[n]
            newl, newh = [l for l, _ in lw.history], [a for _, a in lw.history]
            # append-only: the old entries are a prefix
            if len(newh) < len(objs) or newl[: len(labels)] != labels or any(
                not np.array_equal(a, b) for a, b in zip(newh[: len(objs)], copies)
            ):
                V.append(("C11/earlier-entry-altered-or-dropped", f"{op} label={label!r}: history of {n} went from {labels} to {newl}"))
                continue
            # snapshots: arrays handed out earlier keep their values
            if any(not np.array_equal(a, b) for a, b in zip(objs, copies)):
                V.append(("C11/snapshot-mutated", f"{op}: an earlier history array of {n} was modified in place"))
            if not np.array_equal(vol_obj[n], vol_copy[n]):
                V.append(("C11/snapshot-mutated", f"{op}: an array obtained from {n}.volumes was modified in place"))
            if any(not np.array_equal(a, b) for (_, a), b in zip(hist_prop[n], copies)):
                V.append(("C11/snapshot-mutated", f"{op}: an array obtained from {n}.history was modified in place"))
            grew = len(newh) - len(objs)
            if len(newl) != len(newh):
                V.append(("C11/labels-and-states-differ-in-length", f"{n}: {len(newl)} labels, {len(newh)} states"))
            if n in parts and moved:
                changed = True
                if grew != 1:
                    V.append(("C11/entries-per-operation", f"{op} label={label!r}: history of participant {n} grew by {grew}: {newl}"))
            elif n not in parts and grew != 0:
                V.append(("C11/entries-per-operation", f"{op}: history of bystander {n} grew by {grew}"))
            # the newest entry is the current state
            if n in parts and moved and n in W.get("dirty", []):
                W["dirty"] = [x for x in W["dirty"] if x != n]
            if n not in W.get("dirty", []) and not np.array_equal(newh[-1], lw.volumes):
                V.append(("C11/newest-entry-is-not-current-volumes", f"{n}: {newh[-1].tolist()} vs {lw.volumes.tolist()}"))
            # label of the newest entry
            if n in parts and moved and grew >= 1:
                got = newl[-1]
                if op == "transfer":
                    na = 0
                    for r in recs:
                        try:
                            na += gwl.parse(r)["kind"] == "A"
                        except gwl.ParseError:
                            pass
                    extra = na - nonzero
                    base = label or ""
                    g = got or ""
                    if not g.startswith(base):
                        V.append(("C11/label", f"transfer label={label!r}: newest entry of {n} is labelled {got!r}"))
                    else:
                        ints = re.findall(r"-?\d+", g[len(base):])
                        if extra > 0 and ints != [str(extra)]:
                            V.append(("C11/large-volume-note", f"transfer label={label!r} added {extra} extra pairs; entry of {n} is labelled {got!r}"))
                        if extra <= 0 and g != base:
                            V.append(("C11/large-volume-note", f"transfer label={label!r} split nothing; entry of {n} is labelled {got!r}"))
                elif (got or "") != (label or ""):
                    V.append(("C11/label", f"{op} label={label!r}: newest entry of {n} is labelled {got!r}"))
            # the report lists the same entries in the same order (and reading it changes nothing)
            hcopy = [a.copy() for _, a in lw.history]
            vcopy = lw.volumes
            rep = lw.report
            if any(not np.array_equal(a, b) for (_, a), b in zip(lw.history, hcopy)) or not np.array_equal(lw.volumes, vcopy):
                V.append(("C11/snapshot-mutated", f"reading {n}.report changed the history or the volumes of {n}"))
            pos = len(lw.name) if rep.startswith(lw.name) else -1
            if pos < 0:
                V.append(("C11/report", f"report of {n} does not start with its name"))
            for lab, state in lw.history:
                if pos < 0:
                    break
                if lab:
                    pos = rep.find("\n" + lab + "\n", pos)
                    if pos < 0:
                        V.append(("C11/report", f"report of {n} misses label {lab!r} in order"))
                        break
                    pos += len(lab) + 1
                txt = "\n" + str(np.round(state, decimals=1)) + "\n"
                pos = rep.find(txt, pos)
                if pos < 0:
                    V.append(("C11/report", f"report of {n} misses a state in order"))
                    break
                pos += len(txt) - 1
            if pos >= 0 and rep[pos:] != "\n":
                V.append(("C11/report", f"report of {n} has extra content"))
        for d in cm.callers_arrays_unchanged(W, config):
            V.append(("C11/snapshot-mutated", d))
        for n, lw in lws.items():
            mine = lw.volumes
            keep, keep_h = mine.copy(), lw.history[-1][1].copy()
            mine[...] = -1.0  # what the caller does to its copy is its own business
            if not np.array_equal(lw.volumes, keep) or not np.array_equal(lw.history[-1][1], keep_h):
                V.append(("C11/snapshot-mutated", f"writing into the array returned by {n}.volumes changed the labware"))
        if changed:
            res["nontrivial"] = self.canon(W, config)
        return res
