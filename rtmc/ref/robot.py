"""A boring interpreter of worklist records: what the robot would do to the liquids.

State per labware and real well: exact (Fraction) volume and {origin: amount}.
Only ever sees parsed records (ref.gwl.parse) - never the Labware objects or the method calls.
"""
from fractions import Fraction

from . import gwl

F0 = Fraction(0)


class Robot:
    def __init__(self, device, geos, contents, wl_max=None, site_map=None):
        """geos: {label: Geo}; contents: {label: {(r, c): (volume, {origin: amount})}}"""
        self.device = device
        self.geos = geos
        self.vol = {n: {k: Fraction(v[0]) for k, v in d.items()} for n, d in contents.items()}
        self.mix = {n: {k: {o: Fraction(a) for o, a in v[1].items()} for k, v in d.items()} for n, d in contents.items()}
        self.touch = {n: {k: 0 for k in d} for n, d in contents.items()}  # number of records touching the well
        self.wl_max = None if wl_max is None else Fraction(wl_max)
        self.site_map = site_map or {}
        self.tip = None  # (volume, mixture) of an A that was the immediately preceding record
        self.nrec = 0

    # -- primitive moves --
    def _take(self, name, cell, v):
        V = self.vol[name][cell]
        m = self.mix[name][cell]
        if V > 0:
            part = {o: a * v / V for o, a in m.items()}
            for o in list(m):
                m[o] -= part[o]
                if m[o] == 0:
                    del m[o]
        else:
            part = {"?": v} if v > 0 else {}
        self.vol[name][cell] = V - v
        self.touch[name][cell] += 1
        return part

    def _put(self, name, cell, v, part):
        m = self.mix[name][cell]
        for o, a in part.items():
            m[o] = m.get(o, F0) + a
        self.vol[name][cell] += v
        self.touch[name][cell] += 1

    def _limits_after_take(self, name, cell, issues):
        g = self.geos[name]
        V = self.vol[name][cell]
        if V < 0:
            issues.append(("negative", f"{name}{cell} = {float(V)}"))
        elif V < Fraction(g.vmin):
            issues.append(("below_min", f"{name}{cell} = {float(V)} < {g.vmin}"))

    def _limits_after_put(self, name, cell, issues):
        g = self.geos[name]
        if self.vol[name][cell] > Fraction(g.vmax):
            issues.append(("above_max", f"{name}{cell} = {float(self.vol[name][cell])} > {g.vmax}"))

    def _cell(self, label, pos, issues):
        g = self.geos.get(label)
        if g is None:
            issues.append(("unknown_rack", label))
            return None
        cell = g.decode(self.device, pos)
        if cell is None:
            issues.append(("bad_position", f"{label} has no position {pos} on {self.device}"))
        return cell

    def feed(self, rec):
        """Execute one record (raw string).  Returns (parsed, issues)."""
        issues = []
        self.nrec += 1
        try:
            p = gwl.parse(rec)
        except gwl.ParseError as e:
            self.tip = None
            return None, [("unparsable", str(e))]
        k = p["kind"]
        if k == "A":
            self.tip = None
            v = p["volume"]
            if self.wl_max is not None and v > self.wl_max:
                issues.append(("step>max_volume", f"A {float(v)} > {float(self.wl_max)}"))
            cell = self._cell(p["label"], p["position"], issues)
            if cell is not None:
                part = self._take(p["label"], cell, v)
                self._limits_after_take(p["label"], cell, issues)
                self.tip = (v, part)
            p["cell"] = cell
        elif k == "D":
            v = p["volume"]
            if self.wl_max is not None and v > self.wl_max:
                issues.append(("step>max_volume", f"D {float(v)} > {float(self.wl_max)}"))
            cell = self._cell(p["label"], p["position"], issues)
            if cell is not None:
                if self.tip is not None and self.tip[0] == v:
                    part = self.tip[1]
                    p["paired"] = True
                else:
                    part = {"?": v} if v > 0 else {}
                    p["paired"] = False
                self._put(p["label"], cell, v, part)
                self._limits_after_put(p["label"], cell, issues)
            p["cell"] = cell
            self.tip = None
        elif k == "R":
            self.tip = None
            self._reagent(p, issues)
        elif k in ("Aspirate", "Dispense"):
            self.tip = None
            self._script(p, issues)
        else:
            self.tip = None
        return p, issues

    def _reagent(self, p, issues):
        v = p["volume"]
        if v < 0:
            issues.append(("negative_volume", p["volume_s"]))
            return
        if self.wl_max is not None:
            if v > self.wl_max:
                issues.append(("step>max_volume", f"R {float(v)} > {float(self.wl_max)}"))
            if p["multi_disp"] * v > self.wl_max and p["multi_disp"] > 1:
                issues.append(("multi_disp*volume>max_volume", f"{p['multi_disp']} x {float(v)}"))
        sg = self.geos.get(p["src_label"])
        dg = self.geos.get(p["dst_label"])
        if sg is None or dg is None:
            issues.append(("unknown_rack", f"{p['src_label']} / {p['dst_label']}"))
            return
        # source range: read with virtual rows counted on both devices (see DESIGN section 3)
        if not sg.is_trough:
            issues.append(("R_source_not_trough", p["src_label"]))
            return
        cols = set()
        for pos in range(p["src_start"], p["src_end"] + 1):
            if pos < 1 or (pos - 1) // sg.vrows >= sg.cols:
                issues.append(("bad_position", f"{p['src_label']} source position {pos}"))
                return
            cols.add((pos - 1) // sg.vrows)
        if len(cols) != 1:
            issues.append(("R_source_not_single_column", f"{p['src_start']}..{p['src_end']} -> columns {sorted(cols)}"))
            return
        scell = (0, cols.pop())
        p["src_cell"] = scell
        excl = set(p["exclude"])
        dcells = []
        for pos in range(p["dst_start"], p["dst_end"] + 1):
            if pos in excl:
                continue
            c = dg.decode(self.device, pos)
            if c is None:
                issues.append(("bad_position", f"{p['dst_label']} has no position {pos} on {self.device}"))
                return
            dcells.append(c)
        p["dst_cells"] = dcells
        n = len(dcells)
        V = self.vol[p["src_label"]][scell]
        m = dict(self.mix[p["src_label"]][scell])
        frac = {o: a / V for o, a in m.items()} if V > 0 else {"?": Fraction(1)}
        self._take(p["src_label"], scell, n * v)
        self._limits_after_take(p["src_label"], scell, issues)
        for c in dcells:
            self._put(p["dst_label"], c, v, {o: f * v for o, f in frac.items()} if v > 0 else {})
            self._limits_after_put(p["dst_label"], c, issues)

    def _script(self, p, issues):
        key = (p["grid"], p["site"])
        name = self.site_map.get(key)
        if name is None:
            issues.append(("unknown_site", str(key)))
            return
        g = self.geos[name]
        try:
            cols, rows, sel, pad = gwl.decode_selection(p["selection"])
        except gwl.ParseError as e:
            issues.append(("unparsable", str(e)))
            return
        if (rows, cols) != (g.idrows, g.cols):
            issues.append(("selection_dims", f"{rows}x{cols} vs labware {g.idrows}x{g.cols}"))
            return
        tips = [t for t in range(1, 9) if p["tip_mask"] >> (t - 1) & 1]
        cells = sorted(sel, key=lambda rc: (rc[1], rc[0]))
        if len({c for _, c in cells}) > 1:
            issues.append(("selection_multi_column", str(cells)))
        if len(tips) != len(cells):
            issues.append(("tips!=wells", f"{tips} vs {cells}"))
        moves = []
        for t, (r, c) in zip(tips, cells):
            v = p["slots"][t - 1]
            if v is None:
                issues.append(("selected_tip_without_volume", f"tip {t}"))
                v = F0
            if self.wl_max is not None and v > self.wl_max:
                issues.append(("step>max_volume", f"{p['kind']} {float(v)}"))
            cell = (0, c) if g.is_trough else (r, c)
            moves.append((cell, v))
        for i, s in enumerate(p["slots"]):
            if s is not None and (i + 1) not in tips:
                issues.append(("volume_for_unselected_tip", f"slot {i + 1}"))
        p["moves"] = moves
        p["labware"] = name
        for cell, v in moves:
            if p["kind"] == "Aspirate":
                self._take(name, cell, v)
                self._limits_after_take(name, cell, issues)
            else:
                self._put(name, cell, v, {"?": v} if v > 0 else {})
                self._limits_after_put(name, cell, issues)

    # -- canonical form for state hashing --
    def canon(self):
        return repr(
            (
                sorted((n, sorted(d.items())) for n, d in self.vol.items()),
                sorted((n, sorted((k, sorted(m.items())) for k, m in d.items())) for n, d in self.mix.items()),
            )
        )
