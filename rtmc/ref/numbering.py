"""Closed-form well numbering, written from the property statements (never calls robotools)."""
import re

ROWS = "ABCDEFGHIJKLMNOPQRSTUVWXYZ"
_ID = re.compile(r"^([A-Z])(\d{2,})$")


def well_id(r, c):
    return f"{ROWS[r]}{c + 1:02d}"


def parse_id(w):
    """'B03' -> (1, 2); None if not a canonical ID."""
    m = _ID.match(w) if isinstance(w, str) else None
    if not m:
        return None
    col = m.group(2)
    if len(col) > 2 and col[0] == "0":
        return None
    n = int(col)
    if n < 1:
        return None
    return ROWS.index(m.group(1)), n - 1


class Geo:
    """Geometry of one labware as the *specification* describes it.

    kind 'plate': rows x cols real wells.   kind 'trough': 1 x cols real wells, vrows virtual rows.
    """

    def __init__(self, name, kind, rows, cols, vmin=0.0, vmax=1e9):
        self.name, self.kind, self.cols = name, kind, cols
        self.rows = rows if kind == "plate" else 1
        self.vrows = rows if kind == "trough" else None
        self.idrows = rows  # number of row letters that appear in IDs
        self.vmin, self.vmax = vmin, vmax

    @property
    def is_trough(self):
        return self.kind == "trough"

    def exists(self, w):
        p = parse_id(w)
        return p is not None and p[0] < self.idrows and p[1] < self.cols

    def real(self, w):
        """real (row, col) cell addressed by an ID"""
        r, c = parse_id(w)
        if r >= self.idrows or c >= self.cols:
            raise KeyError(w)
        return (0, c) if self.is_trough else (r, c)

    def real_wells(self):
        return [(r, c) for c in range(self.cols) for r in range(self.rows)]

    def ids(self):
        """all IDs, column-major"""
        return [well_id(r, c) for c in range(self.cols) for r in range(self.idrows)]

    # --- numbering ---
    def position(self, device, w):
        r, c = parse_id(w)
        if self.is_trough and device == "fluent":
            return 1 + c
        return 1 + c * self.idrows + r

    def decode(self, device, pos):
        """position -> real cell, or None if the position does not exist on this labware"""
        if not isinstance(pos, int) or pos < 1:
            return None
        if self.is_trough and device == "fluent":
            c = pos - 1
            return (0, c) if c < self.cols else None
        r, c = (pos - 1) % self.idrows, (pos - 1) // self.idrows
        if c >= self.cols:
            return None
        return (0, c) if self.is_trough else (r, c)


def flat_f(x):
    """Column-major flattening of a scalar / list / list of lists (my own walk, not numpy's)."""
    if not isinstance(x, (list, tuple)):
        return [x]
    if len(x) and isinstance(x[0], (list, tuple)):
        nr, nc = len(x), len(x[0])
        return [x[r][c] for c in range(nc) for r in range(nr)]
    return list(x)
