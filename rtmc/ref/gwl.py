"""Independent parser for Tecan worklist (.gwl) records and EVOware script commands.

Written from the record format documented in the Tecan manual / the repository's docstrings.
Never calls robotools.
"""
import re
from fractions import Fraction


class ParseError(Exception):
    pass


_INT = re.compile(r"^-?\d+$")
_VOL2 = re.compile(r"^\d+\.\d\d$")
_NUM = re.compile(r"^-?(\d+\.?\d*|\.\d+)([eE][-+]?\d+)?$")
_CMD = re.compile(r"^B;(Aspirate|Dispense|Wash)\((.*)\);$", re.S)


def _int(s, what):
    if not _INT.match(s):
        raise ParseError(f"{what} is not an integer: {s!r}")
    return int(s)


def _split_args(s):
    """split a script-command argument list at commas outside double quotes"""
    out, cur, inq = [], [], False
    for ch in s:
        if ch == '"':
            inq = not inq
            cur.append(ch)
        elif ch == "," and not inq:
            out.append("".join(cur))
            cur = []
        else:
            cur.append(ch)
    if inq:
        raise ParseError("unbalanced quotes in script command")
    out.append("".join(cur))
    return out


def _unq(s, what):
    if len(s) < 2 or s[0] != '"' or s[-1] != '"' or '"' in s[1:-1]:
        raise ParseError(f"{what} is not a quoted string: {s!r}")
    return s[1:-1]


def _num(s, what):
    if not _NUM.match(s):
        raise ParseError(f"{what} is not a number: {s!r}")
    return Fraction(s)


def parse(rec):
    if not isinstance(rec, str):
        raise ParseError(f"record is not a string: {type(rec)}")
    if "\n" in rec or "\r" in rec:
        raise ParseError("record contains a line break")
    if rec == "":
        raise ParseError("empty record")
    try:
        rec.encode("latin-1")
    except UnicodeEncodeError:
        raise ParseError("record is not Latin-1")
    m = _CMD.match(rec)
    if m:
        return _parse_cmd(m.group(1), m.group(2), rec)
    f = rec.split(";")
    t = f[0]
    if t in ("A", "D"):
        if len(f) != 11:
            raise ParseError(f"{t} record has {len(f)} fields, expected 11: {rec!r}")
        if not _VOL2.match(f[6]):
            raise ParseError(f"volume not in two-decimal format: {f[6]!r}")
        if f[9] != "" and not _INT.match(f[9]):
            raise ParseError(f"tip mask not numeric: {f[9]!r}")
        return {
            "kind": t,
            "label": f[1],
            "rack_id": f[2],
            "rack_type": f[3],
            "position": _int(f[4], "position"),
            "tube_id": f[5],
            "volume_s": f[6],
            "volume": Fraction(f[6]),
            "liquid_class": f[7],
            "tip_type": f[8],
            "tip_mask": None if f[9] == "" else int(f[9]),
            "forced_rack_type": f[10],
            "raw": rec,
        }
    if t == "R":
        if len(f) < 16:
            raise ParseError(f"R record has {len(f)} fields, expected >= 16: {rec!r}")
        excl = [_int(x, "excluded well") for x in f[16:]]
        return {
            "kind": "R",
            "src_label": f[1],
            "src_id": f[2],
            "src_type": f[3],
            "src_start": _int(f[4], "src_start"),
            "src_end": _int(f[5], "src_end"),
            "dst_label": f[6],
            "dst_id": f[7],
            "dst_type": f[8],
            "dst_start": _int(f[9], "dst_start"),
            "dst_end": _int(f[10], "dst_end"),
            "volume_s": f[11],
            "volume": _num(f[11], "volume"),
            "liquid_class": f[12],
            "diti_reuse": _int(f[13], "diti_reuse"),
            "multi_disp": _int(f[14], "multi_disp"),
            "direction": _int(f[15], "direction"),
            "exclude": excl,
            "raw": rec,
        }
    if t == "C":
        if len(f) != 2:
            raise ParseError(f"comment contains a separator: {rec!r}")
        return {"kind": "C", "text": f[1], "raw": rec}
    if t == "S":
        if len(f) != 2:
            raise ParseError(f"S record has {len(f)} fields")
        return {"kind": "S", "index": _int(f[1], "DiTi index"), "raw": rec}
    if rec == "B;":
        return {"kind": "B", "raw": rec}
    if rec == "F;":
        return {"kind": "F", "raw": rec}
    if rec == "WD;":
        return {"kind": "WD", "raw": rec}
    if rec == "W;":
        return {"kind": "W", "scheme": None, "raw": rec}
    if re.match(r"^W[1-4];$", rec):
        return {"kind": "W", "scheme": int(rec[1]), "raw": rec}
    raise ParseError(f"unknown record: {rec!r}")


def _parse_cmd(name, argstr, rec):
    a = _split_args(argstr)
    if name in ("Aspirate", "Dispense"):
        if len(a) != 20:
            raise ParseError(f"{name} has {len(a)} arguments, expected 20")
        slots = []
        for i, s in enumerate(a[2:14]):
            if s == "0":
                slots.append(None)
            else:
                slots.append(_num(_unq(s, f"volume slot {i + 1}"), f"volume slot {i + 1}"))
        return {
            "kind": name,
            "tip_mask": _int(a[0], "tip mask"),
            "liquid_class": _unq(a[1], "liquid class"),
            "slots": slots,
            "slots_raw": a[2:14],
            "grid": _int(a[14], "grid"),
            "site": _int(a[15], "site"),
            "spacing": _int(a[16], "spacing"),
            "selection": _unq(a[17], "selection"),
            "n_loop": _int(a[18], "loop options"),
            "arm": _int(a[19], "arm"),
            "raw": rec,
        }
    if len(a) != 16:
        raise ParseError(f"Wash has {len(a)} arguments, expected 16")
    return {
        "kind": "Wash",
        "tip_mask": _int(a[0], "tip mask"),
        "waste_grid": _int(a[1], "waste grid"),
        "waste_site": _int(a[2], "waste site"),
        "cleaner_grid": _int(a[3], "cleaner grid"),
        "cleaner_site": _int(a[4], "cleaner site"),
        "waste_vol": _num(_unq(a[5], "waste vol"), "waste vol"),
        "waste_vol_s": _unq(a[5], "waste vol"),
        "waste_delay": _int(a[6], "waste delay"),
        "cleaner_vol": _num(_unq(a[7], "cleaner vol"), "cleaner vol"),
        "cleaner_vol_s": _unq(a[7], "cleaner vol"),
        "cleaner_delay": _int(a[8], "cleaner delay"),
        "airgap": _int(a[9], "airgap"),
        "airgap_speed": _int(a[10], "airgap speed"),
        "retract_speed": _int(a[11], "retract speed"),
        "fastwash": _int(a[12], "fastwash"),
        "low_volume": _int(a[13], "low volume"),
        "atfreq": _int(a[14], "at frequency"),
        "arm": _int(a[15], "arm"),
        "raw": rec,
    }


def decode_selection(s):
    """EVOware well selection string -> (cols, rows, set of (row, col)), padding bits.

    two hex digits columns, two hex digits rows, then 7 wells per character, column-major,
    least significant bit first, offset 48."""
    if len(s) < 4:
        raise ParseError("selection string too short")
    try:
        cols, rows = int(s[0:2], 16), int(s[2:4], 16)
    except ValueError:
        raise ParseError(f"selection header not hex: {s[:4]!r}")
    n = rows * cols
    nchar = (n + 6) // 7
    body = s[4:]
    if len(body) != nchar:
        raise ParseError(f"selection has {len(body)} data characters, expected {nchar}")
    sel = set()
    pad = 0
    for i, ch in enumerate(body):
        v = ord(ch) - 48
        if v < 0 or v > 127:
            raise ParseError(f"selection character out of range: {ord(ch)}")
        for b in range(7):
            k = i * 7 + b
            if v >> b & 1:
                if k < n:
                    sel.add((k % rows, k // rows))
                else:
                    pad += 1
    return cols, rows, sel, pad
