"""./check <Cxx> quick|thorough        run one property check
   ./check replay <file>              re-execute a recorded counterexample without the explorer
   ./check all quick|thorough         run every registered check
"""
import importlib
import json
import os
import sys

os.environ.setdefault("PYTHONHASHSEED", "0")


def load(pid):
    mod = importlib.import_module(f"rtmc.harness.{pid.lower()}")
    return mod.Harness()


def run(pid, tier):
    from rtmc import engine

    h = load(pid)
    h.tier = tier
    engine.run_tmp()  # before any worker is forked
    try:
        if getattr(h, "regime", "A") == "A":
            total, cov, wall = engine.explore(h, tier)
        else:
            total, cov, wall = engine.run_lattice(h, tier)
        return engine.finish(h, tier, total, cov, wall)
    finally:
        engine.remove_run_tmp()


def replay(path):
    with open(path) as f:
        rec = json.load(f)
    h = load(rec["property"])
    h.tier = "thorough"  # a replay runs the complete case, whatever the tier that found it thinned out
    from rtmc import engine

    engine.run_tmp()
    try:
        got = h.replay(rec["case"])
    finally:
        engine.remove_run_tmp()
    print(f"replay of {path}\n  property={rec['property']} clause={rec['clause']}")
    print(f"  case={json.dumps(rec['case'])[:2000]}")
    for clause, detail in got:
        print(f"  observed violation: {clause}: {detail}")
    if rec["clause"] in [c for c, _ in got]:
        print("  -> still violated")
        return 1
    print("  -> not violated on this tree")
    return 0


def main(argv):
    if len(argv) >= 2 and argv[0] == "replay":
        return replay(argv[1])
    if len(argv) >= 1 and argv[0] == "all":
        tier = argv[1] if len(argv) > 1 else "quick"
        rc = 0
        with open(os.path.join(os.path.dirname(os.path.dirname(os.path.abspath(__file__))), "MANIFEST.json")) as f:
            man = json.load(f)
        for c in man["checks"]:
            rc = max(rc, run(c["property_id"], tier))
        return rc
    if len(argv) < 1:
        print(__doc__)
        return 2
    tier = argv[1] if len(argv) > 1 else os.environ.get("VERIF_TIER", "quick")
    if tier not in ("quick", "thorough"):
        print(__doc__)
        return 2
    return run(argv[0].upper(), tier)


if __name__ == "__main__":
    sys.exit(main(sys.argv[1:]))
